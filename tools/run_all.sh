#!/bin/bash
# usage: tools/run_all.sh [quick|thorough]   -- runs every registered check on the current tree
cd "$(dirname "$0")/.." || exit 2
TIER="${1:-quick}"; rc=0
for p in $(python3 -c "import json; print(' '.join(c['property_id'] for c in json.load(open('MANIFEST.json'))['checks']))"); do
    out=$(bin/check "$p" "$TIER" 2>&1); r=$?
    echo "$out" | grep -E "^check |^VIOLATION|^KNOWN-FINDING|HARNESS" | sed "s/^/[$p exit=$r] /"
    [ $r -ne 0 ] && rc=1
done
exit $rc

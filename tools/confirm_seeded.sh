#!/bin/bash
# usage: tools/confirm_seeded.sh <patch.diff> <demo.rs> [--features ffi]
# Confirms, in a scratch worktree outside /repo and /verif, that a seeded change
#  (1) compiles and passes the existing test suite, (2) makes the demo fail, (3) the demo passes without it.
# Prints one line: CONFIRMED or REJECTED <why>. The worktree and its build output are removed afterwards.
PATCH="$(readlink -f "$1")"; DEMO="$(readlink -f "$2")"; shift 2; EXTRA="$*"
WT="/tmp/confirm-$$-$(basename "$PATCH" .diff)"
export CARGO_NET_OFFLINE=true
git -C /repo worktree add -q --detach "$WT" HEAD || { echo "REJECTED cannot create worktree"; exit 2; }
cleanup() { git -C /repo worktree remove --force "$WT" >/dev/null 2>&1; rm -rf "$WT"; }
trap cleanup EXIT
cd "$WT" || exit 2
NAME="seeded_demo_$$"
cp "$DEMO" "tests/$NAME.rs"
# (3) demo passes on the unchanged tree
if ! cargo test --offline $EXTRA --test "$NAME" >"$WT/.demo0.log" 2>&1; then
    echo "REJECTED demo fails on the unchanged tree"; tail -20 "$WT/.demo0.log"; exit 1
fi
if ! git apply "$PATCH"; then echo "REJECTED patch does not apply"; exit 1; fi
# (2) demo fails with the change
if cargo test --offline $EXTRA --test "$NAME" >"$WT/.demo1.log" 2>&1; then
    echo "REJECTED demo passes with the change"; exit 1
fi
if grep -q "error\[E" "$WT/.demo1.log"; then echo "REJECTED does not compile"; tail -20 "$WT/.demo1.log"; exit 1; fi
# (1) existing suite passes with the change (demo removed)
rm -f "tests/$NAME.rs"
if ! cargo test --workspace --no-fail-fast --offline >"$WT/.suite.log" 2>&1; then
    echo "REJECTED existing tests fail with the change"; grep -E "^test .* FAILED|failed" "$WT/.suite.log" | head; exit 1
fi
N=$(grep -E "^test result: ok" "$WT/.suite.log" | awk '{s+=$4} END {print s}')
echo "CONFIRMED existing tests pass with the change ($N passed), demo fails with it and passes without it"

#!/usr/bin/env python3
"""Runs the registered quick checks against every seeded change in /verif/seeded/<id>/.
For each: git -C {REPO} apply patch.diff; bin/check <property> quick (plus any extra checks listed in
meta.json 'also'); git -C {REPO} checkout -- .  Results are written to /verif/seeded/results.json.
usage: tools/run_seeded.py [id ...]"""
import json, os, subprocess, sys, time
ROOT = os.path.dirname(os.path.dirname(os.path.abspath(__file__)))
REPO = os.environ.get("RSDD_REPO", "/repo")  # a scratch worktree can be used instead of /repo (bin/check honours RSDD_REPO)
SEEDED = os.path.join(ROOT, "seeded")
def sh(cmd, **kw): return subprocess.run(cmd, shell=True, capture_output=True, text=True, **kw)
def main():
    ids = sys.argv[1:] or sorted(d for d in os.listdir(SEEDED) if os.path.isdir(os.path.join(SEEDED, d)))
    res_path = os.path.join(SEEDED, "results.json")
    results = json.load(open(res_path)) if os.path.exists(res_path) else {}
    assert sh(f"git -C {REPO} status --porcelain").stdout.strip() == "", f"{REPO} has uncommitted changes"
    for i in ids:
        d = os.path.join(SEEDED, i)
        meta = json.load(open(os.path.join(d, "meta.json")))
        props = [meta["property"]] + ([] if os.environ.get("NO_ALSO") else meta.get("also", []))
        r = sh(f"git -C {REPO} apply {d}/patch.diff")
        if r.returncode != 0:
            results[i] = {"error": "patch does not apply: " + r.stderr[:200]}; continue
        entry = {"property": meta["property"], "checks": {}}
        try:
            for p in props:
                t0 = time.time()
                r = sh(f"{ROOT}/bin/check {p} quick", cwd=ROOT)
                lines = [l for l in r.stdout.splitlines() if l.startswith("VIOLATION") or l.startswith("violation in") or l.startswith("run ")]
                entry["checks"][p] = {"exit": r.returncode, "caught": r.returncode == 1, "wall_s": round(time.time() - t0, 1),
                                      "report": [l[:400] for l in lines][:3]}
                # keep the replay next to the seeded change
                for l in r.stdout.splitlines():
                    if l.startswith("VIOLATION") and "replay=" in l:
                        rp = l.split("replay=")[1].strip()
                        if os.path.exists(rp):
                            os.makedirs(os.path.join(d, "replays"), exist_ok=True)
                            os.replace(rp, os.path.join(d, "replays", f"{p}-" + os.path.basename(rp)))
        finally:
            sh(f"git -C {REPO} checkout -- .")
        entry["caught_by"] = [p for p, c in entry["checks"].items() if c["caught"]]
        results[i] = entry
        print(i, "caught by", entry["caught_by"] or "NOTHING", {p: c["wall_s"] for p, c in entry["checks"].items()})
        json.dump(results, open(res_path, "w"), indent=1, sort_keys=True)
    # restore evidence of the unchanged tree is the caller's job (re-run the checks)
main()

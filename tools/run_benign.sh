#!/bin/bash
# usage: tools/run_benign.sh [file.diff ...]
# False-alarm test: applies each behaviour-preserving change in /verif/benign/*.diff to /repo, runs every
# registered quick check, reverts. Every check must hold on every one of them. Results: benign/results.txt
cd "$(dirname "$0")/.." || exit 2
REPO="${RSDD_REPO:-/repo}"
[ -z "$(git -C "$REPO" status --porcelain)" ] || { echo "$REPO has uncommitted changes"; exit 2; }
FILES="${@:-benign/*.diff}"
for f in $FILES; do
    name=$(basename "$f" .diff)
    if ! git -C "$REPO" apply "$PWD/$f"; then echo "$name: PATCH DOES NOT APPLY" | tee -a benign/results.txt; continue; fi
    out=$(tools/run_all.sh quick 2>&1); rc=$?
    git -C "$REPO" checkout -- .
    held=$(echo "$out" | grep -c "exit=0\] check")
    echo "$name: $held checks held, rc=$rc" | tee -a benign/results.txt
    echo "$out" | grep -E "VIOLATION|HARNESS|exit=[12]\]" | sed "s/^/    /" | tee -a benign/results.txt
done

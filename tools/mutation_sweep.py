#!/usr/bin/env python3
"""Systematic sensitivity measurement: syntactic mutants of rsdd's core files.

For every sampled mutant (one small edit: flipped comparison, swapped && / ||, dropped .neg(), +1 -> +0,
true <-> false, swapped low/high ...):
  1. it must compile and PASS the repository's existing test suite (otherwise it is discarded: the existing
     tests already see it, or it is not a valid program);
  2. the quick checks of the properties anchored in that file are run against it.
The outcome per mutant is: discarded (does not build / killed by the existing suite), caught by <checks>,
or survived (neither the suite nor our checks see it: equivalent mutant or a blind spot -- listed for triage).

Everything happens in private copies: worker i owns a git worktree of /repo at /tmp/ms/w<i>/repo and a copy of
/verif (sim/Cargo.toml re-pointed at that worktree) at /tmp/ms/w<i>/verif, so /repo, /verif/evidence and
/verif/replays are never touched.

usage: tools/mutation_sweep.py [--workers N] [--per-file K] [--seed S] [--threads T] [--out FILE]
"""
import argparse, json, os, random, re, shutil, subprocess, sys, threading, time

ROOT = os.path.dirname(os.path.dirname(os.path.abspath(__file__)))
BASE = "/tmp/ms"

# file -> properties whose quick checks are run on its mutants
FILES = {
    "src/backing_store/bump_table.rs": ["C02", "C04", "C11"],
    "src/util/lru.rs": ["C16"],
    "src/builder/cache/ite.rs": ["C01", "C03", "C16"],
    "src/builder/cache/lru_app.rs": ["C16", "C01"],
    "src/builder/cache/all_app.rs": ["C01", "C16"],
    "src/builder/bdd/robdd.rs": ["C01", "C02", "C10"],
    "src/builder/bdd/builder.rs": ["C01", "C02"],
    "src/builder/mod.rs": ["C01", "C03"],
    "src/repr/bdd.rs": ["C10", "C01", "C11"],
    "src/repr/var_order.rs": ["C01", "C02"],
    "src/builder/sdd/builder.rs": ["C03", "C04"],
    "src/builder/sdd/compression.rs": ["C03", "C04", "C16"],
    "src/builder/sdd/semantic.rs": ["C11", "C16"],
    "src/repr/sdd.rs": ["C10", "C03", "C04", "C11"],
    "src/repr/sdd/sdd_or.rs": ["C10", "C11", "C03", "C04"],
    "src/repr/sdd/binary_sdd.rs": ["C10", "C11", "C03", "C04"],
    "src/repr/unit_prop.rs": ["C09"],
    "src/repr/cnf.rs": ["C15"],
    "src/repr/model.rs": ["C15", "C09"],
    "src/repr/var_label.rs": ["C15"],
    "src/repr/ddnnf.rs": ["C11", "C10"],
    "src/builder/decision_nnf/builder.rs": ["C11", "C10"],
    "src/builder/decision_nnf/semantic.rs": ["C11"],
    "src/util/semirings/finitefield.rs": ["C11"],
    "src/ffi/bdd.rs": ["C18"],
    "src/ffi/wmc.rs": ["C18"],
    "src/ffi/cnf.rs": ["C18"],
    "src/ffi/var.rs": ["C18"],
}

OPS = [
    (r" == ", " != "), (r" != ", " == "), (r" <= ", " < "), (r" >= ", " > "), (r" < ", " <= "), (r" > ", " >= "),
    (r" && ", " || "), (r" \|\| ", " && "), (r"\+ 1\b", "+ 0"), (r"\+ 1\b", "+ 2"), (r"- 1\b", "- 0"),
    (r"\.neg\(\)", ""), (r"\btrue\b", "false"), (r"\bfalse\b", "true"),
    (r"\.low\b", ".high"), (r"\.high\b", ".low"), (r"\blow_raw\(\)", "high_raw()"), (r"\bhigh_raw\(\)", "low_raw()"),
    (r"\bis_true\(", "is_false("), (r"\bis_false\(", "is_true("), (r"\bis_some\(\)", "is_none()"), (r"\bis_none\(\)", "is_some()"),
    (r"\bpolarity\(\)", "polarity() == false"), (r"\bif ", "if !"), (r"\b0\b", "1"), (r"\b1\b", "0"),
    (r"\.prime\(\)", ".sub()"), (r"\.sub\(\)", ".prime()"), (r"\bis_neg\(\)", "is_neg() == false"),
]


def candidate_lines(path):
    """(line number, text) of lines that are real code: not tests, comments, attributes, verif hooks, imports"""
    out = []
    src = open(path).read().split("\n")
    in_test = False
    skip_next_verif = 0
    for i, line in enumerate(src):
        st = line.strip()
        if st.startswith("#[cfg(test)]") or st.startswith("#[test]") or st.startswith("mod tests"):
            in_test = True
        if in_test:
            continue
        if "cfg(rsdd_verif)" in st:
            skip_next_verif = 1
            continue
        if skip_next_verif == 1:
            # the guarded item: a single statement, or a block / fn skipped up to its closing brace
            depth = st.count("{") - st.count("}")
            skip_next_verif = 2 if depth > 0 else 0
            verif_depth = depth
            continue
        if skip_next_verif == 2:
            verif_depth += st.count("{") - st.count("}")
            if verif_depth <= 0:
                skip_next_verif = 0
            continue
        if not st or st.startswith("//") or st.startswith("#[") or st.startswith("use ") or st.startswith("///") or st.startswith("extern crate"):
            continue
        if re.match(r"^(pub(\([a-z]+\))? )?(unsafe )?(extern \"C\" )?(fn|struct|enum|impl|trait|type|const|static|mod)\b", st) or st.startswith("where") or "->" in st and st.endswith("{"):
            continue
        if "crate::verif" in st or "debug_assert" in st or "println!" in st or "panic!" in st or "format!" in st:
            continue
        out.append((i, line))
    return src, out


def gen_mutants(relpath, k, rng):
    path = os.path.join("/repo", relpath)
    src, lines = candidate_lines(path)
    muts = []
    for (i, line) in lines:
        code = line.split("//")[0]
        for (pat, rep) in OPS:
            for m in re.finditer(pat, code):
                if pat == r"\bif " and (not code.strip().startswith(("if ", "} else if ")) or "if let" in code):
                    continue
                if pat in (r"\b0\b", r"\b1\b") and not re.search(r"[\[\(=<>+\-] ?%s\b" % m.group(0), code):
                    continue
                new = code[: m.start()] + rep + code[m.end():] + line[len(code):]
                if new != line:
                    muts.append({"file": relpath, "line": i + 1, "old": line.strip(), "new": new.strip(), "new_full": new})
    rng.shuffle(muts)
    # at most one mutant per line first, then fill up
    seen, pick = set(), []
    for m in muts:
        if m["line"] not in seen:
            seen.add(m["line"])
            pick.append(m)
        if len(pick) >= k:
            break
    return pick


def sh(cmd, cwd=None, env=None, timeout=None):
    try:
        r = subprocess.run(cmd, shell=True, cwd=cwd, env=env, capture_output=True, text=True, timeout=timeout)
        return r.returncode, r.stdout + r.stderr
    except subprocess.TimeoutExpired as e:
        return 124, (e.stdout or "") + (e.stderr or "") if isinstance(e.stdout, str) else "timeout"


def setup_worker(i):
    w = f"{BASE}/w{i}"
    if os.path.exists(w):
        sh(f"git -C /repo worktree remove --force {w}/repo")
        shutil.rmtree(w, ignore_errors=True)
    os.makedirs(w)
    rc, out = sh(f"git -C /repo worktree add -q --detach {w}/repo HEAD")
    assert rc == 0, out
    os.makedirs(f"{w}/verif")
    for item in ["bin", "tools", "known-findings.txt", "MANIFEST.json", "properties.jsonl"]:
        sh(f"cp -r {ROOT}/{item} {w}/verif/")
    os.makedirs(f"{w}/verif/sim")
    sh(f"cp -r {ROOT}/sim/src {ROOT}/sim/Cargo.toml {ROOT}/sim/Cargo.lock {ROOT}/sim/.cargo {w}/verif/sim/")
    sh(f"sed -i 's#path = \"/repo\"#path = \"{w}/repo\"#' {w}/verif/sim/Cargo.toml")
    return w


ALL_PROPS = ["C01", "C02", "C03", "C04", "C09", "C10", "C11", "C15", "C16", "C18"]


def run_mutant(w, m, threads, log, props=None, skip_suite=False):
    repo = f"{w}/repo"
    path = os.path.join(repo, m["file"])
    src = open(path).read().split("\n")
    orig = src[m["line"] - 1]
    src[m["line"] - 1] = m["new_full"]
    open(path, "w").write("\n".join(src))
    env = dict(os.environ, CARGO_NET_OFFLINE="true", VERIF_THREADS=str(threads))
    res = dict(m)
    del res["new_full"]
    try:
        t0 = time.time()
        rc, out = (0, "") if skip_suite else sh("cargo test --workspace --no-fail-fast --offline --features ffi", cwd=repo, env=env, timeout=1800)
        if rc == 124:
            res["status"] = "existing-tests-timeout"
            return res
        if rc != 0:
            res["status"] = "does-not-build" if ("could not compile" in out or "error[E" in out) else "killed-by-existing-tests"
            return res
        res["suite_s"] = round(time.time() - t0)
        caught = {}
        for p in (props or FILES[m["file"]]):
            t1 = time.time()
            rc2, out2 = sh(f"bin/check {p} quick", cwd=f"{w}/verif", env=env, timeout=2400)
            line = [l for l in out2.splitlines() if l.startswith("violation in") or l.startswith("run ") or l.startswith("HARNESS")]
            caught[p] = {"exit": rc2, "s": round(time.time() - t1), "report": (line[0][:300] if line else "")}
            if rc2 == 1:
                break  # one catching check is enough
        res["checks"] = caught
        res["status"] = "caught" if any(c["exit"] == 1 for c in caught.values()) else ("harness-error" if any(c["exit"] not in (0, 1) for c in caught.values()) else "SURVIVED")
        return res
    finally:
        src[m["line"] - 1] = orig
        open(path, "w").write("\n".join(src))
        sh("git checkout -- .", cwd=repo)


def main():
    ap = argparse.ArgumentParser()
    ap.add_argument("--workers", type=int, default=3)
    ap.add_argument("--per-file", type=int, default=8)
    ap.add_argument("--seed", type=int, default=1)
    ap.add_argument("--threads", type=int, default=5)
    ap.add_argument("--out", default=os.path.join(ROOT, "mutation", "results.jsonl"))
    ap.add_argument("--files", default="")
    ap.add_argument("--survivors-all", action="store_true", help="second pass: run every claimed check not yet run on each SURVIVED mutant of --out; results go to <out>.second.jsonl")
    a = ap.parse_args()
    if a.survivors_all:
        return second_pass(a)
    rng = random.Random(a.seed)
    files = [f for f in FILES if not a.files or any(x in f for x in a.files.split(","))]
    todo = []
    for f in files:
        todo.extend(gen_mutants(f, a.per_file, rng))
    rng.shuffle(todo)
    os.makedirs(os.path.dirname(a.out), exist_ok=True)
    done = set()
    if os.path.exists(a.out):
        for l in open(a.out):
            r = json.loads(l)
            done.add((r["file"], r["line"], r["new"]))
    todo = [m for m in todo if (m["file"], m["line"], m["new"]) not in done]
    print(f"{len(todo)} mutants to run ({len(done)} already done), {a.workers} workers")
    lock = threading.Lock()
    it = iter(todo)

    def worker(i):
        w = setup_worker(i)
        while True:
            with lock:
                m = next(it, None)
            if m is None:
                break
            r = run_mutant(w, m, a.threads, None)
            with lock:
                with open(a.out, "a") as f:
                    f.write(json.dumps(r) + "\n")
                print(f"[w{i}] {r['file']}:{r['line']} {r['old'][:50]!r} -> {r['new'][:50]!r}: {r['status']}", flush=True)
        sh(f"git -C /repo worktree remove --force {w}/repo")
        shutil.rmtree(w, ignore_errors=True)

    ts = [threading.Thread(target=worker, args=(i,)) for i in range(a.workers)]
    for t in ts:
        t.start()
    for t in ts:
        t.join()
    # summary
    stats = {}
    for l in open(a.out):
        r = json.loads(l)
        stats[r["status"]] = stats.get(r["status"], 0) + 1
    print(json.dumps(stats, indent=1))


def second_pass(a):
    out2 = a.out.replace(".jsonl", ".second.jsonl")
    done = set()
    if os.path.exists(out2):
        for l in open(out2):
            r = json.loads(l)
            done.add((r["file"], r["line"], r["new"]))
    todo = []
    for l in open(a.out):
        r = json.loads(l)
        if r["status"] == "SURVIVED" and (r["file"], r["line"], r["new"]) not in done:
            src = open(os.path.join("/repo", r["file"])).read().split("\n")
            line = src[r["line"] - 1]
            assert line.strip() == r["old"], (r, line)
            r["new_full"] = line.replace(r["old"], r["new"])
            r["rest"] = [p for p in ALL_PROPS if p not in r.get("checks", {})]
            todo.append(r)
    print(f"second pass over {len(todo)} survivors")
    lock = threading.Lock()
    it = iter(todo)

    def worker(i):
        w = setup_worker(i)
        while True:
            with lock:
                m = next(it, None)
            if m is None:
                break
            rest = m.pop("rest")
            first = m.pop("checks", {})
            m.pop("status", None)
            r = run_mutant(w, m, a.threads, None, props=rest, skip_suite=True)
            r["first_pass_checks"] = first
            with lock:
                with open(out2, "a") as f:
                    f.write(json.dumps(r) + "\n")
                print(f"[w{i}] {r['file']}:{r['line']} {r['old'][:50]!r} -> {r['new'][:50]!r}: {r['status']}", flush=True)
        sh(f"git -C /repo worktree remove --force {w}/repo")
        shutil.rmtree(w, ignore_errors=True)

    ts = [threading.Thread(target=worker, args=(i + 10,)) for i in range(a.workers)]
    for t in ts:
        t.start()
    for t in ts:
        t.join()


if __name__ == "__main__":
    main()

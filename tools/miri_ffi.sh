#!/bin/bash
# Optional extra for C18 (not a registered check): runs a few seeds of the `ffi` world under Miri
# (tree borrows; leak checking off because the C API never frees result boxes; the allocator seam is
# compiled out under Miri, so these runs do not claim address determinism).
# usage: tools/miri_ffi.sh [first_seed] [count] [max_ops]
cd "$(dirname "$0")/../sim" || exit 2
FIRST="${1:-1}"; COUNT="${2:-6}"; MAXOPS="${3:-40}"
export CARGO_NET_OFFLINE=true
export MIRIFLAGS="-Zmiri-ignore-leaks -Zmiri-disable-isolation -Zmiri-tree-borrows"
rc=0
for s in $(seq "$FIRST" $((FIRST + COUNT - 1))); do
    out=$(cargo +nightly miri run --offline -- run-one --world ffi --target C18 --seed "$s" --max-ops "$MAXOPS" 2>&1)
    if echo "$out" | grep -q "^error: Undefined Behavior"; then
        echo "seed $s: MIRI ERROR"; echo "$out" | grep -A14 "^error: Undefined Behavior" | head -30; rc=1
    else
        echo "seed $s: $(echo "$out" | grep '^ops=' | head -1)"
    fi
done
exit $rc

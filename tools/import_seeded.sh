#!/bin/bash
# usage: tools/import_seeded.sh <PROP> <k> [--features ffi]
# Copies /tmp/mut/<PROP>-out/{patch,demo,meta}<PROP>_<k>.* into /verif/seeded/<PROP>_<k>/ after
# confirming the change in a scratch worktree (tools/confirm_seeded.sh).
P="$1"; K="$2"; shift 2
SRC="${SEEDED_SRC:-/tmp/mut/$P-out}"; DST="/verif/seeded/${P}_$K"
[ -f "$SRC/patch${P}_$K.diff" ] && [ -f "$SRC/demo${P}_$K.rs" ] || { echo "$P_$K: deliverables missing"; exit 2; }
RES=$(/verif/tools/confirm_seeded.sh "$SRC/patch${P}_$K.diff" "$SRC/demo${P}_$K.rs" "$@" 2>&1 | tail -1)
echo "${P}_$K: $RES"
case "$RES" in CONFIRMED*) ;; *) exit 1 ;; esac
mkdir -p "$DST"
cp "$SRC/patch${P}_$K.diff" "$DST/patch.diff"
cp "$SRC/demo${P}_$K.rs" "$DST/demo.rs"
cp "$SRC/meta${P}_$K.txt" "$DST/author-notes.txt" 2>/dev/null
python3 - "$P" "$K" "$DST" "$RES" "$*" <<'PY'
import json,sys,os
p,k,dst,res,extra=sys.argv[1:6]
notes=open(os.path.join(dst,'author-notes.txt')).read() if os.path.exists(os.path.join(dst,'author-notes.txt')) else ''
meta={"id":f"{p}_{k}","property":p,"origin":"independent sub-agent given only the property text and a scratch worktree of /repo",
 "needs_to_manifest":"see author-notes.txt","confirmed":res,
 "confirm_cmd":f"tools/confirm_seeded.sh seeded/{p}_{k}/patch.diff seeded/{p}_{k}/demo.rs {extra}".strip(),
 "demo_cmd":f"cp seeded/{p}_{k}/demo.rs <worktree>/tests/ && cargo test --offline {extra} --test demo".strip()}
json.dump(meta,open(os.path.join(dst,'meta.json'),'w'),indent=1)
PY

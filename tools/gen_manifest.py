#!/usr/bin/env python3
"""Regenerates /verif/MANIFEST.json from the table below (kept valid at all times)."""
import json, os, subprocess
ROOT = os.path.dirname(os.path.dirname(os.path.abspath(__file__)))

TECH = "deterministic simulation with fault injection: seeded search over operation interleavings, memory placement and cache/table fault sequences, with a reference-model oracle; minimised replay files"

CLAIMED = {
 "C01": dict(section="5 C01", text="Seeded simulation of BDD-builder histories (1-4 logical callers on one builder, all orders, both cache kinds, tiny-to-shipped capacities, cache-forgetting / early-growth faults, controlled memory placement) against an independent 128-bit truth-table model; every result and, later, every old handle is read back by two independent walkers. Sampling evidence, not proof; right level because the property quantifies over histories and hidden cache/table state that only a controlled execution can steer.",
             note="Trusted: the truth-table model (tt.rs, unit-tested), the two diagram walkers, the allocator seam. Bounds: bdd world <= 7 variables with an exact oracle; bddmid world 8-100 variables (rare runs: up to 131000) judged on a sampled sub-cube of 512 points with condition/exists/compose restricted to its 7 free variables; <= 310 operations per run (one run in 300: a marathon of 30000-100000 operations on one builder; one in 400: a counter-period history with a quiet phase of 2^8 / 2^16 conditioning calls); lists of up to 129 items; partial models also built through set/unset histories. compose judged against its documented definition. Every check starts with a 15% (quick) / 20% (thorough) slice in a build without debug assertions and overflow checks."),
 "C02": dict(section="5 C02", text="Same simulated histories with a run-global function->pointer map, per-node shape checks, sub-diagram canonicity and end-of-run re-lookup of every live node; plus the real robin-hood table driven directly with simulator-chosen hash values (collision clusters, wrap-around, all-equal, pointer-like), growth at arbitrary instants, capacities 1..64 and the shipped 131072 with > 91750 keys. Sampling evidence.",
             note="Trusted: truth-table model, set model of the table, allocator seam. Probe chains < 255 assumed (u8 probe length in the table; a 60-million-node fill does not reach it). One structural table run in four goes through the public UniqueTable::get_or_insert with two-word elements whose FxHash collides or is 0 (hash preimages). Beyond 7 variables (bddmid, bddbig) canonicity is judged structurally: reduced, ordered, regular high edges, no duplicate triple, every stored node found again, re-issue pointer-equal."),
 "C16": dict(section="5 C16", text="The lossy cache driven directly with adversarial colliding hashes / all capacities / forced growth against a last-value map (only wrong values are violations), and twin execution: the same history on a lossy, fault-injected BDD builder and on a fault-free cache-everything twin must give identical canonical diagrams; likewise an SDD builder whose apply and ite caches forget at random against a fault-free twin. Sampling evidence.",
             note="Trusted: map model, structural signature function, allocator seam. A cache may always answer None. Twins are compared by structure where results are canonical (BDD, compressed SDD) and by function otherwise (uncompressed SDD, hash-identified SDD)."),
 "C09": dict(section="5 C09", text="Seeded simulation of decide/pop histories (1-3 logical callers, any variable and polarity, refused decisions followed by more work on the same solver) on the real SATSolver over random small CNFs, checked after every step against brute-force entailment over all <= 64 models, a clause-by-clause fixpoint check, a shadow stack for pop, and hash-vs-residual-formula injectivity. Sampling evidence; the space explored is the call schedule (this component has no cache or allocator dependence, so no fault kinds apply).",
             note="Trusted: brute-force model enumeration (<= 10 variables), a DPLL oracle written for the harness (large instances: <= 140 variables, <= 300 clauses; implication ladders of up to 6000 rungs; sparse-wide instances), shadow stack. <= 120 calls (one small run in 1500: 150000-250000 calls on one solver; one in 1000: a counter-period history; hub formulas with watch lists of tens of entries; one 9-14-literal clause). Hash clause asserted at every size: exact while the prime product fits 128 bits, beyond that a coincidence modulo 2^128 is treated as impossible. One run in 5000: 20000-100000 variables with a sweep over all single-decision states."),
 "C15": dict(section="5 C15", text="Seeded simulation of CnfHasher push/decide/pop/hash histories (caller's partial model kept in step, also hashed with extra assignments) against a residual-formula reference (equal residual => equal hash; equal hash => equal residual while the prime product fits 128 bits), and of PartialModel / VarSet mutation histories against explicit sets; Cnf::new/eval/is_sat_partial/condition chains/brute-force wmc ride along as generated inputs checked against explicit assignment sets (for those clauses the simulator adds nothing beyond seeded generation). Sampling evidence.",
             note="Trusted: explicit-set reference implementations in the harness. Bounds: <= 10 variables with exhaustive eval/wmc, large formulas (<= 60 variables, <= 90 clauses) with sampled eval/condition and no count; a 150-variable partial model and 200-label variable sets; <= 124 calls; exact dyadic / modular weights; one large formula in eight has a 27-45-literal clause; equal VarSets must hash equally; the conditioned formula's own hasher is exercised; the 'only then' half also applies per residual whose prime product is bounded by 128 bits; one run in 1500 is a sweep over a formula with 300-9000 literal occurrences (every single-occurrence residual hashed; pairwise different and route-independent hashes demanded). Each run executes on a fresh thread, so library-side thread-local state never leaks between runs."),
 "C03": dict(section="5 C03", text="Seeded simulation of SDD-builder histories (1-4 logical callers on one CompressionSddBuilder; right-linear, left-linear, balanced and random vtrees with random leaf labelling; compression on and off; tiny-to-shipped unique tables; apply-/ite-cache forgetting and early growth; controlled placement) against the truth-table model, read back by an independent evaluator over elements / binary nodes / complement variants and by a second reader through node_iter(); old handles are re-read later. Sampling evidence.",
             note="Trusted: truth-table model, the two SDD readers, allocator seam. Bounds: sdd world <= 7 variables (exact oracle), sddmid world 8-20 variables and balanced vtrees over 33000-70000 variables (sampled sub-cube); <= 160 operations (one compressing run in 300: 1500-6000 operations on one builder; one sddmid run in 200: decision nodes with 256-2048 elements built along two routes; one in 150: wide multiplexers, raw element lists of up to 2048 entries with coinciding and complementary subs); clause / compile_cnf / read-only query operations; uncompressed operations are admitted by a per-kind work estimate and operands whose unfolded size exceeds a cap are not reused (rsdd's structural pointer ordering is exponential on deep shared diagrams; cost control only)."),
 "C04": dict(section="5 C04", text="The same simulated histories with compression on: every reachable decision node is audited from the truth tables of its elements against the vtree (primes non-false, disjoint, exhaustive, left variables only; subs right variables only and pairwise different; not trimmable), a run-global function->pointer map over all handles and all sub-diagrams decides canonicity, and every live node is looked up again at the end. Sampling evidence.",
             note="Trusted: truth-table model, vtree leaf sets read through the public VTree API. The library's is_compressed/is_trimmed are evaluated as a cross-check only (disagreements are counted, not reported). In the sddmid world only the structural and sound-from-samples parts of the statement are checked; its multiplexer operation and wide-multiplexer runs exercise compression on raw element lists of up to 2048 entries whose subs coincide or complement each other."),
 "C10": dict(section="5 C10", text="Seeded simulation of query histories: 1-4 logical callers interleave queries of different result types (eight semirings, evaluate, node count, (cached) semantic hash, bdd_fold, marginal MAP / MEU / branch-and-bound, smooth, condition) over BDD, SDD and top-down diagrams that share nodes, sub-diagrams and complements; each answer must equal the answer on a freshly built copy in a brand-new builder, and after every public call every scratch slot of every node in the builder (not only the roots) must be empty. Sampling evidence.",
             note="Trusted: the fresh-copy construction (Shannon expansion from the truth table up to 7 variables; replay of the construction history in the fresh builder for 8-245 variables, smoothed diagrams and the top-down variant), exact weights. The oracle does not judge correctness of the fresh answer. Also: serialize and statistics queries, special weight values (0, 1, -1, equal low/high, field elements 0/1/p-1), argument words biased to empty/singleton/full lists, conditioning marathons and counter-period histories on one builder, top-down stores beyond 8192 nodes."),
 "C11": dict(section="5 C11", text="Seeded simulation in which one operation history is executed in lock-step on seven builders (two BDD orders, compressed and uncompressed SDDs under two vtrees, a hash-identified SDD builder, a standard and a hash-identified top-down builder under two decision orders): every result's semantic hash under the three exported 32/64-bit primes must equal the defining sum over the models of the function the diagram denotes (library's public weight map), negations hash to 1-h, cached hashes requested at random points of the history equal recomputation, and the hash-identified builders must return the function the operation names and report eq for equal functions, and at end of run no two stored nodes of a hash-identified builder may denote the same or complementary function; the unique table's identity-by-hash mode (get_or_insert_by_hash(..,true)/get_by_hash) is also driven directly with simulator-chosen hashes. Tiny tables, cache forgetting and early growth are injected. Sampling evidence.",
             note="Trusted: truth-table model, defining-sum implementation (128-bit modular arithmetic), diagram readers. Only equal-function => equal-hash is asserted. <= 6 variables in the lock-step histories; rare scenarios: literals of a hash-identified builder over 20000-100000 variables, and a 17-20 variable CNF compiled by the hash-identified SDD builder compared with the BDD. One run in four hashes under caller-made weight maps (low + high = 1, built from 0/1, p-1/2, the halves, 3/p-2); statistics calls and clone+edit+get_or_insert on the hash-identified top-down store are part of the histories."),
 "C18": dict(section="5 C18", text="Seeded simulation of C-API call sequences against the real extern \"C\" symbols (linked from the rlib) with a native RobddBuilder twin receiving the corresponding Rust calls: same truth table and canonical structure for every result, same eq / predicates / top variable / children, same node and model counts, bit-identical real / complex / polynomial weighted counts with weight tables built and read back through the C setters/getters, same JSON and debug strings; the cnf_from_dimacs -> min-fill order -> dtree -> vtree -> SDD compile/count and top-down compile/count pipeline is compared stage by stage with the native sequence. Panics inside extern \"C\" abort the process; the supervisor isolates and reports the run. Sampling evidence.",
             note="Trusted: the twin construction (which native call corresponds to which C function), truth-table model. The harness dereferences the boxed BddPtr results to read the diagrams. <= 7 variables with a truth-table model; rare 20-22 variable runs with the native twin as the only reference. Coefficient buffers may alias; strings returned earlier are re-read after later calls; a scratch value may be parked on a child while the parent is counted; special weight values."),
}

NA = {
 "C05": "pure function of (formula, order/vtree, partial assignment): no history, schedule, clock or fault enters it, so simulation has nothing to steer; its stateful mechanisms (caches, unique table) are decided under C01-C04/C16",
 "C06": "pure function of (CNF, decision order, store kind, literal); the solver history it drives internally is decided as C09; nothing else is schedulable",
 "C07": "a weighted count is a pure function of (diagram, weights); the only hidden state it touches (per-node memo) is exactly C10, which is claimed",
 "C08": "smoothing is a pure function of (diagram, n); no state survives the call except new nodes in the unique table (C02)",
 "C12": "marginal MAP / MEU / branch-and-bound are pure functions of (diagram, query variables, weights); their memo use is C10",
 "C13": "algebraic laws of value types: no state, time, I/O or interleaving exists",
 "C14": "orders, dtrees and vtree tables are pure functions of a formula/tree built once and never mutated",
 "C17": "parsing and serialisation are pure functions over in-memory strings, not streams: there is no partial read, EOF or I/O error to inject",
 "C19": "the binaries are separate processes outside an in-process simulator; for valid input files they are pure functions of those files and the property says nothing about I/O failure",
}
PENDING = {}

def main():
    props = [json.loads(l)["id"] for l in open(os.path.join(ROOT, "properties.jsonl"))]
    hooks = subprocess.run(["git","-C","/repo","log","--format=%h %s"],capture_output=True,text=True).stdout.splitlines()
    hook_commits = [l.split()[0] for l in hooks if "verif hooks" in l]
    checks = []
    for pid in props:
        if pid in CLAIMED:
            c = CLAIMED[pid]
            checks.append({
                "property_id": pid,
                "quick_cmd": f"bin/check {pid} quick",
                "thorough_cmd": f"bin/check {pid} thorough",
                "evidence_file": f"evidence/{pid}.json",
                "replay_cmd_template": "bin/check replay {path}",
                "engine": "rsdd-sim",
                "level_claimed": {"category": "exploration", "text": c["text"], "design_ref": "DESIGN.md section " + c["section"]},
                "level_note": c["note"],
                "technique": TECH,
            })
    na = []
    for pid in props:
        if pid in CLAIMED: continue
        if pid in NA: na.append({"property_id": pid, "reason": "not applicable to deterministic simulation here: " + NA[pid]})
        else: na.append({"property_id": pid, "reason": PENDING.get(pid, "simulation check not built yet (claimed in DESIGN.md, world under construction)")})
    m = {
        "version": 1,
        "setup_cmd": "cd /verif/sim && CARGO_NET_OFFLINE=true cargo build --release --offline && CARGO_NET_OFFLINE=true cargo build --profile shipped --offline",
        "hooks": {
            "guard": "--cfg rsdd_verif",
            "enable": "RUSTFLAGS='--cfg rsdd_verif' (set in /verif/sim/.cargo/config.toml; /verif/sim links /repo as a path dependency and rebuilds it on every check)",
            "baseline_off_cmd": "cd /repo && cargo test --workspace --no-fail-fast --offline",
            "source_commits": hook_commits,
            "add_only": True,
        },
        "engines": [{
            "name": "rsdd-sim", "path": "sim/", "serves_properties": sorted(CLAIMED),
            "kind_free_text": "single-process deterministic simulator (Rust): seeded scheduler of logical callers, allocator seam for memory placement, cooperative fault points in rsdd (cfg rsdd_verif), reference-model oracles, delta-debugging minimiser, replay files, child-process supervisor for hangs/crashes",
        }],
        "checks": checks,
        "not_applicable": na,
        "notes": "Every check is `bin/check <id> <tier>`: it rebuilds sim/ against /repo's working tree with hooks on, runs a fixed number of seeded runs (VERIF_SEED, default 1), writes evidence/<id>.json, and on a violation minimises it and writes replays/<id>-<world>-<seed>.json. known-findings.txt lists recorded and fixed findings. Every run executes on its own fresh OS thread inside its own arena (DESIGN 3.2a); one run in four starts with earlier work on that thread (3.2b); the ffi world's lifetime runs use the allocator's address re-use mode (3.2c).",
    }
    json.dump(m, open(os.path.join(ROOT, "MANIFEST.json"), "w"), indent=1)
    print("MANIFEST.json:", len(checks), "checks,", len(na), "not applicable/pending")

main()

#!/usr/bin/env python3
"""Rewrites the seeded-change table in DESIGN.md (between the SEEDED-TABLE markers) from seeded/*/meta.json and seeded/results.json."""
import json, os, re
ROOT = os.path.dirname(os.path.dirname(os.path.abspath(__file__)))
res = json.load(open(os.path.join(ROOT, "seeded", "results.json")))
rows = []
for d in sorted(os.listdir(os.path.join(ROOT, "seeded"))):
    mp = os.path.join(ROOT, "seeded", d, "meta.json")
    if not os.path.exists(mp): continue
    m = json.load(open(mp)); r = res.get(d, {})
    caught = r.get("caught_by", [])
    cls = ""
    for p, c in r.get("checks", {}).items():
        if c.get("caught") and c.get("report"):
            mm = re.search(r"in world (\w+) run #(\d+).*?\[([^\]]+)\]", c["report"][0])
            mo = re.search(r"minimised (\d+) -> (\d+) ops", c["report"][0])
            if mm: cls = f"`{mm.group(1)}` / `{mm.group(3)}`, run #{mm.group(2)}" + (f", {mo.group(1)}→{mo.group(2)} ops" if mo else "")
            elif c["report"]: cls = c["report"][0][:80]
    note = m.get("history", "")
    rows.append(f"| {d} | {m.get('summary','')} | {m.get('needs_to_manifest','')} | {'yes: ' + ', '.join(caught) if caught else '**NO**'} | {cls} | {note} |")
table = "| id | change | needs, to manifest | caught by quick check | world / violation class | note |\n|----|--------|--------------------|-----------------------|-------------------------|------|\n" + "\n".join(rows)
s = open(os.path.join(ROOT, "DESIGN.md")).read()
if "SEEDED_TABLE_PLACEHOLDER" in s:
    s = s.replace("SEEDED_TABLE_PLACEHOLDER", "<!-- SEEDED-TABLE-BEGIN -->\n<!-- SEEDED-TABLE-END -->")
s = re.sub(r"<!-- SEEDED-TABLE-BEGIN -->.*?<!-- SEEDED-TABLE-END -->", "<!-- SEEDED-TABLE-BEGIN -->\n" + table.replace("\\", "\\\\") + "\n<!-- SEEDED-TABLE-END -->", s, flags=re.S)
open(os.path.join(ROOT, "DESIGN.md"), "w").write(s)
print(len(rows), "rows")

//! Hang and hard-crash containment: the checks run in a child process; each
//! worker publishes the (world, seed) of its in-flight run in a small shared
//! file. If the child dies on a signal or exceeds its wall budget, the parent
//! re-executes the in-flight seeds one at a time in isolated children and
//! reports the one that hangs/dies again as the violation (bounded liveness:
//! every call returns within the budget). Wall time is only ever used to give
//! up, never to decide anything inside a run.

use std::fs::OpenOptions;
use std::io::{Read, Seek, SeekFrom, Write};
use std::sync::Mutex;

pub const SLOT_LEN: usize = 64;
pub const MAX_WORKERS: usize = 64;

pub struct Inflight {
    file: Mutex<std::fs::File>,
    /// start of each worker's in-flight run (for the in-child watchdog)
    started: Mutex<Vec<Option<std::time::Instant>>>,
}

impl Inflight {
    pub fn create(path: &str) -> Inflight {
        let mut f = OpenOptions::new()
            .create(true)
            .truncate(true)
            .read(true)
            .write(true)
            .open(path)
            .expect("inflight file");
        f.write_all(&vec![b' '; SLOT_LEN * MAX_WORKERS]).unwrap();
        Inflight { file: Mutex::new(f), started: Mutex::new(vec![None; MAX_WORKERS]) }
    }

    pub fn publish(&self, worker: usize, world: &str, seed: u64) {
        let mut s = format!("{world} {seed}");
        s.truncate(SLOT_LEN - 1);
        while s.len() < SLOT_LEN - 1 {
            s.push(' ');
        }
        s.push('\n');
        self.started.lock().unwrap()[worker % MAX_WORKERS] = Some(std::time::Instant::now());
        let mut f = self.file.lock().unwrap();
        let _ = f.seek(SeekFrom::Start(((worker % MAX_WORKERS) * SLOT_LEN) as u64));
        let _ = f.write_all(s.as_bytes());
    }

    /// longest time any in-flight run has been executing (seconds)
    pub fn longest_inflight_s(&self) -> u64 {
        self.started.lock().unwrap().iter().flatten().map(|t| t.elapsed().as_secs()).max().unwrap_or(0)
    }

    /// keep only the entries of runs that have been executing for at least `min_s` seconds
    pub fn keep_only_slow(&self, min_s: u64) {
        let st = self.started.lock().unwrap().clone();
        for (w, t) in st.iter().enumerate() {
            if !matches!(t, Some(t) if t.elapsed().as_secs() >= min_s) {
                let mut s = " ".repeat(SLOT_LEN - 1);
                s.push('\n');
                let mut f = self.file.lock().unwrap();
                let _ = f.seek(SeekFrom::Start((w * SLOT_LEN) as u64));
                let _ = f.write_all(s.as_bytes());
            }
        }
    }

    pub fn clear(&self, worker: usize) {
        self.started.lock().unwrap()[worker % MAX_WORKERS] = None;
        let mut s = " ".repeat(SLOT_LEN - 1);
        s.push('\n');
        let mut f = self.file.lock().unwrap();
        let _ = f.seek(SeekFrom::Start(((worker % MAX_WORKERS) * SLOT_LEN) as u64));
        let _ = f.write_all(s.as_bytes());
    }
}

/// (world, seed) pairs that were executing when the child stopped
pub fn read_inflight(path: &str) -> Vec<(String, u64)> {
    let mut out = Vec::new();
    let mut s = String::new();
    if let Ok(mut f) = std::fs::File::open(path) {
        let _ = f.read_to_string(&mut s);
    }
    for line in s.lines() {
        let mut it = line.split_whitespace();
        if let (Some(w), Some(seed)) = (it.next(), it.next()) {
            if let Ok(seed) = seed.parse::<u64>() {
                out.push((w.to_string(), seed));
            }
        }
    }
    out
}

pub enum ChildEnd {
    Exited(i32),
    Signalled(i32),
    TimedOut,
}

/// run a child with a wall budget (seconds); stdout/stderr are inherited
pub fn run_child(args: &[String], budget_s: u64) -> ChildEnd {
    let exe = std::env::current_exe().expect("current_exe");
    let mut child = std::process::Command::new(exe)
        .args(args)
        .spawn()
        .expect("spawn child");
    let t0 = std::time::Instant::now();
    loop {
        match child.try_wait() {
            Ok(Some(st)) => {
                use std::os::unix::process::ExitStatusExt;
                if let Some(c) = st.code() {
                    return ChildEnd::Exited(c);
                }
                return ChildEnd::Signalled(st.signal().unwrap_or(0));
            }
            Ok(None) => {
                if t0.elapsed().as_secs() > budget_s {
                    let _ = child.kill();
                    let _ = child.wait();
                    return ChildEnd::TimedOut;
                }
                std::thread::sleep(std::time::Duration::from_millis(20));
            }
            Err(_) => return ChildEnd::Exited(2),
        }
    }
}

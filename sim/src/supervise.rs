//! Hang and hard-crash containment: the checks run in a child process; each
//! worker publishes the (world, seed) of its in-flight run in a small shared
//! file. If the child dies on a signal or exceeds its wall budget, the parent
//! re-executes the in-flight seeds one at a time in isolated children and
//! reports the one that hangs/dies again as the violation (bounded liveness:
//! every call returns within the budget). Time is only ever used to give
//! up, never to decide anything inside a run; the budget of a single run is
//! counted in CPU time of the thread executing it, so that a loaded machine
//! (other checks, other builds) cannot turn a slow-but-finishing run into a
//! reported hang. A much larger wall-clock bound backs it up against a
//! harness deadlock.

use std::fs::OpenOptions;
use std::io::{Read, Seek, SeekFrom, Write};
use std::sync::Mutex;

pub const SLOT_LEN: usize = 64;
pub const MAX_WORKERS: usize = 64;

pub struct Inflight {
    file: Mutex<std::fs::File>,
    /// start of each worker's in-flight run (for the in-child watchdog): wall start, the worker
    /// thread's CPU clock and its reading at the start
    started: Mutex<Vec<Option<Started>>>,
}

#[derive(Clone, Copy)]
struct Started {
    wall: std::time::Instant,
    clock: libc::clockid_t,
    cpu0: f64,
}

/// wall-clock backstop = this many times the CPU budget
pub const WALL_FACTOR: u64 = 6;

fn clock_s(clock: libc::clockid_t) -> Option<f64> {
    let mut ts = libc::timespec { tv_sec: 0, tv_nsec: 0 };
    if unsafe { libc::clock_gettime(clock, &mut ts) } == 0 {
        Some(ts.tv_sec as f64 + ts.tv_nsec as f64 * 1e-9)
    } else {
        None
    }
}

impl Started {
    fn now() -> Started {
        let mut clock: libc::clockid_t = libc::CLOCK_THREAD_CPUTIME_ID;
        unsafe {
            // a clock id that other threads (the watchdog) can read
            let mut c: libc::clockid_t = 0;
            if libc::pthread_getcpuclockid(libc::pthread_self(), &mut c) == 0 {
                clock = c;
            }
        }
        Started { wall: std::time::Instant::now(), clock, cpu0: clock_s(clock).unwrap_or(0.0) }
    }
    /// seconds this run has been executing: CPU seconds of its thread, or (backstop) wall seconds / WALL_FACTOR
    fn elapsed_s(&self) -> u64 {
        let cpu = clock_s(self.clock).map(|t| (t - self.cpu0).max(0.0) as u64).unwrap_or(0);
        cpu.max(self.wall.elapsed().as_secs() / WALL_FACTOR)
    }
}

impl Inflight {
    pub fn create(path: &str) -> Inflight {
        let mut f = OpenOptions::new()
            .create(true)
            .truncate(true)
            .read(true)
            .write(true)
            .open(path)
            .expect("inflight file");
        f.write_all(&vec![b' '; SLOT_LEN * MAX_WORKERS]).unwrap();
        Inflight { file: Mutex::new(f), started: Mutex::new(vec![None; MAX_WORKERS]) }
    }

    pub fn publish(&self, worker: usize, world: &str, seed: u64) {
        let mut s = format!("{world} {seed}");
        s.truncate(SLOT_LEN - 1);
        while s.len() < SLOT_LEN - 1 {
            s.push(' ');
        }
        s.push('\n');
        self.started.lock().unwrap()[worker % MAX_WORKERS] = Some(Started::now());
        let mut f = self.file.lock().unwrap();
        let _ = f.seek(SeekFrom::Start(((worker % MAX_WORKERS) * SLOT_LEN) as u64));
        let _ = f.write_all(s.as_bytes());
    }

    /// called on the thread that executes the worker's current run: from now on that thread's CPU clock measures it
    pub fn running_on_this_thread(&self, worker: usize) {
        self.started.lock().unwrap()[worker % MAX_WORKERS] = Some(Started::now());
    }

    /// longest time any in-flight run has been executing (CPU seconds of its thread; see `Started::elapsed_s`)
    pub fn longest_inflight_s(&self) -> u64 {
        self.started.lock().unwrap().iter().flatten().map(|t| t.elapsed_s()).max().unwrap_or(0)
    }

    /// keep only the entries of runs that have been executing for at least `min_s` seconds
    pub fn keep_only_slow(&self, min_s: u64) {
        let st = self.started.lock().unwrap().clone();
        for (w, t) in st.iter().enumerate() {
            if !matches!(t, Some(t) if t.elapsed_s() >= min_s) {
                let mut s = " ".repeat(SLOT_LEN - 1);
                s.push('\n');
                let mut f = self.file.lock().unwrap();
                let _ = f.seek(SeekFrom::Start((w * SLOT_LEN) as u64));
                let _ = f.write_all(s.as_bytes());
            }
        }
    }

    pub fn clear(&self, worker: usize) {
        self.started.lock().unwrap()[worker % MAX_WORKERS] = None;
        let mut s = " ".repeat(SLOT_LEN - 1);
        s.push('\n');
        let mut f = self.file.lock().unwrap();
        let _ = f.seek(SeekFrom::Start(((worker % MAX_WORKERS) * SLOT_LEN) as u64));
        let _ = f.write_all(s.as_bytes());
    }
}

/// (world, seed) pairs that were executing when the child stopped
pub fn read_inflight(path: &str) -> Vec<(String, u64)> {
    let mut out = Vec::new();
    let mut s = String::new();
    if let Ok(mut f) = std::fs::File::open(path) {
        let _ = f.read_to_string(&mut s);
    }
    for line in s.lines() {
        let mut it = line.split_whitespace();
        if let (Some(w), Some(seed)) = (it.next(), it.next()) {
            if let Ok(seed) = seed.parse::<u64>() {
                out.push((w.to_string(), seed));
            }
        }
    }
    out
}

pub enum ChildEnd {
    Exited(i32),
    Signalled(i32),
    TimedOut,
}

/// CPU seconds (user + system, all threads) consumed so far by process `pid`
fn process_cpu_s(pid: u32) -> Option<f64> {
    let s = std::fs::read_to_string(format!("/proc/{pid}/stat")).ok()?;
    // fields after the parenthesised command name; utime and stime are fields 14 and 15 of the line
    let rest = &s[s.rfind(')')? + 1..];
    let f: Vec<&str> = rest.split_whitespace().collect();
    let (ut, st): (f64, f64) = (f.get(11)?.parse().ok()?, f.get(12)?.parse().ok()?);
    let hz = unsafe { libc::sysconf(libc::_SC_CLK_TCK) } as f64;
    Some((ut + st) / if hz > 0.0 { hz } else { 100.0 })
}

/// run a child with a wall budget (seconds); stdout/stderr are inherited
pub fn run_child(args: &[String], budget_s: u64) -> ChildEnd {
    run_child_cpu(args, u64::MAX, budget_s)
}

/// run a child with a CPU budget and a wall backstop (seconds)
pub fn run_child_cpu(args: &[String], cpu_budget_s: u64, budget_s: u64) -> ChildEnd {
    let exe = std::env::current_exe().expect("current_exe");
    let mut child = std::process::Command::new(exe)
        .args(args)
        .spawn()
        .expect("spawn child");
    let t0 = std::time::Instant::now();
    loop {
        match child.try_wait() {
            Ok(Some(st)) => {
                use std::os::unix::process::ExitStatusExt;
                if let Some(c) = st.code() {
                    return ChildEnd::Exited(c);
                }
                return ChildEnd::Signalled(st.signal().unwrap_or(0));
            }
            Ok(None) => {
                let cpu = if cpu_budget_s == u64::MAX { 0 } else { process_cpu_s(child.id()).unwrap_or(0.0) as u64 };
                if t0.elapsed().as_secs() > budget_s || cpu > cpu_budget_s {
                    let _ = child.kill();
                    let _ = child.wait();
                    return ChildEnd::TimedOut;
                }
                std::thread::sleep(std::time::Duration::from_millis(20));
            }
            Err(_) => return ChildEnd::Exited(2),
        }
    }
}

//! Plans, outcomes, the per-run context and the contained execution of one run.

use crate::alloc;
use crate::rng::LogHash;
use serde::{Deserialize, Serialize};
use std::cell::{Cell, RefCell};
use std::collections::BTreeMap;
use std::panic::{catch_unwind, AssertUnwindSafe};

pub const NUM_SITES: usize = rsdd::verif::NUM_SITES;

pub type Cfg = BTreeMap<String, i64>;

/// One scheduled operation: which logical caller issues it, what it is, its
/// arguments (handle references are "index modulo current pool size", so any
/// subsequence of a plan is still a well-formed program).
#[derive(Serialize, Deserialize, Clone, Debug, PartialEq)]
pub struct Op {
    pub c: u8,
    pub k: u8,
    pub a: [i64; 4],
}

#[derive(Serialize, Deserialize, Clone, Debug, PartialEq)]
pub enum Faults {
    /// fault points fire at random with the given per-site rate (out of 256)
    Random { seed: u64, rates: [u16; NUM_SITES] },
    /// fault points fire exactly at these (site, n-th visit of that site)
    Script(Vec<(u8, u64)>),
}

/// The explicit schedule and fault trace of one run. `seed` fixes the memory
/// placement slot; everything else is spelled out.
#[derive(Serialize, Deserialize, Clone, Debug)]
pub struct Plan {
    pub world: String,
    pub target: String,
    pub seed: u64,
    pub cfg: Cfg,
    pub ops: Vec<Op>,
    pub faults: Faults,
}

impl Plan {
    pub fn get(&self, key: &str) -> i64 {
        *self
            .cfg
            .get(key)
            .unwrap_or_else(|| panic!("plan cfg lacks key {key}"))
    }
    pub fn get_or(&self, key: &str, d: i64) -> i64 {
        self.cfg.get(key).copied().unwrap_or(d)
    }
}

#[derive(Serialize, Deserialize, Clone, Debug, PartialEq)]
pub struct Violation {
    pub property: String,
    /// stable identifier of the invariant that failed (the "violation class")
    pub check: String,
    pub step: usize,
    pub detail: String,
}

#[derive(Clone, Debug, Default)]
pub struct RunStats {
    pub ops: u64,
    pub evals: u64,
    pub fired: [u64; NUM_SITES],
    pub visits: [u64; NUM_SITES],
    pub probes: Vec<u64>,
    pub counters: BTreeMap<&'static str, u64>,
    /// violations of properties other than the target seen (and not reported) in this run
    pub foreign: u64,
    pub nontrivial: bool,
    /// digests of "states" reached (world-defined: truth tables, residual formulas, ...)
    pub states: Vec<u64>,
    pub arena_bytes: usize,
    pub allocs: u64,
}

#[derive(Clone, Debug)]
pub struct Outcome {
    pub violation: Option<Violation>,
    pub log_hash: u64,
    pub stats: RunStats,
    pub trace: Vec<String>,
    pub fired: Vec<(u8, u64)>,
}

pub struct Abort;
pub type R<T = ()> = Result<T, Abort>;

/// Per-run context handed to the world: event log, invariant counter, verdict.
pub struct Ctx<'p> {
    pub target: &'p str,
    pub trace_on: bool,
    log: LogHash,
    pub lines: Vec<String>,
    pub evals: u64,
    pub ops: u64,
    pub violation: Option<Violation>,
    pub foreign: u64,
    pub counters: BTreeMap<&'static str, u64>,
    pub states: Vec<u64>,
    pub step: usize,
    /// property the currently executing operation belongs to (for panics / hangs)
    pub cur_prop: &'static str,
    pub nontrivial: bool,
    /// the run outgrew its memory budget (its arena slot) and was cut short; not a verdict
    pub abandoned: bool,
}

impl<'p> Ctx<'p> {
    pub fn new(target: &'p str, trace_on: bool) -> Ctx<'p> {
        Ctx {
            target,
            trace_on,
            log: LogHash::new(),
            lines: Vec::new(),
            evals: 0,
            ops: 0,
            violation: None,
            foreign: 0,
            counters: BTreeMap::new(),
            states: Vec::new(),
            step: 0,
            cur_prop: "",
            nontrivial: false,
            abandoned: false,
        }
    }

    /// is this property being decided by the current check ("*" = all)?
    #[inline]
    pub fn wants(&self, prop: &str) -> bool {
        self.target == "*" || self.target == prop
    }

    /// append an event to the log hash
    #[inline]
    pub fn ev(&mut self, tag: u64, words: &[u64]) {
        self.log.word(tag);
        for w in words {
            self.log.word(*w);
        }
    }

    /// human-readable trace line (only materialised in trace mode); never
    /// draws randomness and never reads a clock
    #[inline]
    pub fn note(&mut self, f: impl FnOnce() -> String) {
        if self.trace_on {
            let s = f();
            self.lines.push(s);
        }
    }

    #[inline]
    pub fn count(&mut self, name: &'static str, n: u64) {
        *self.counters.entry(name).or_insert(0) += n;
    }

    /// one invariant evaluation; `ok == false` is a violation of `prop`
    #[inline]
    pub fn check(
        &mut self,
        prop: &'static str,
        class: &'static str,
        ok: bool,
        detail: impl FnOnce() -> String,
    ) -> R {
        self.evals += 1;
        if ok {
            if alloc::overflowed() {
                // memory budget of a simulated run (one arena slot) exceeded: the run continued
                // reproducibly in its overflow slot up to here and is now cut short
                self.abandoned = true;
                return Err(Abort);
            }
            return Ok(());
        }
        self.fail(prop, class, detail())
    }

    pub fn fail(&mut self, prop: &str, class: &str, detail: String) -> R {
        if self.wants(prop) {
            self.ev(0xDEAD, &[crate::rng::str_hash(class)]);
            self.violation = Some(Violation {
                property: prop.to_string(),
                check: class.to_string(),
                step: self.step,
                detail,
            });
            Err(Abort)
        } else {
            self.foreign += 1;
            Ok(())
        }
    }
}

pub trait World: Sync {
    fn name(&self) -> &'static str;
    /// properties this world can decide
    fn properties(&self) -> &'static [&'static str];
    /// derive the explicit plan of run `run_seed`
    fn generate(&self, run_seed: u64, target: &str, thorough: bool) -> Plan;
    /// execute the plan against the real code
    fn execute(&self, plan: &Plan, ctx: &mut Ctx) -> R;
    /// simpler configurations to try during minimisation
    fn simplify_cfg(&self, _plan: &Plan) -> Vec<Cfg> {
        Vec::new()
    }
    fn render_op(&self, op: &Op) -> String {
        format!("c{} k{} {:?}", op.c, op.k, op.a)
    }
}

thread_local! {
    static IN_RUN: Cell<bool> = const { Cell::new(false) };
    static PANIC_MSG: RefCell<Option<String>> = const { RefCell::new(None) };
}

pub fn install_panic_hook() {
    let default = std::panic::take_hook();
    std::panic::set_hook(Box::new(move |info| {
        if IN_RUN.get() {
            alloc::with_system(|| {
                let loc = info
                    .location()
                    .map(|l| {
                        let f = l.file();
                        let f = f.rsplit("/src/").next().unwrap_or(f);
                        let f = f.strip_prefix("src/").unwrap_or(f);
                        format!("{}:{}", f, l.line())
                    })
                    .unwrap_or_else(|| "?".to_string());
                let msg = if let Some(s) = info.payload().downcast_ref::<&str>() {
                    s.to_string()
                } else if let Some(s) = info.payload().downcast_ref::<String>() {
                    s.clone()
                } else {
                    "<non-string panic>".to_string()
                };
                PANIC_MSG.with(|p| *p.borrow_mut() = Some(format!("{loc}|{msg}")));
            });
        } else {
            default(info);
        }
    }));
}

fn faults_to_hook_cfg(plan: &Plan) -> rsdd::verif::Config {
    let table_capacity = match plan.get_or("table_cap", 0) {
        0 => None,
        n => Some(n as usize),
    };
    let lru_capacity_pow = match plan.get_or("lru_pow", -1) {
        -1 => None,
        n => Some(n as usize),
    };
    let (random, script) = match &plan.faults {
        Faults::Random { seed, rates } => (Some((*seed, *rates)), Vec::new()),
        Faults::Script(v) => (None, v.clone()),
    };
    rsdd::verif::Config {
        table_capacity,
        lru_capacity_pow,
        random,
        script,
    }
}

/// Execute one plan start-to-finish inside its own arena and **on its own, fresh OS thread**.
/// A pure function of the plan (and the code under test).
///
/// Why a thread per run: a run's memory is taken from an arena that is emptied when the run ends. Anything the code
/// under test keeps in *thread-local* storage (a memo, a cache of primes, a counter) would otherwise survive on a
/// re-used worker thread while the memory it points to is wiped and handed to the next run -- the harness, not the
/// library, would then be breaking the rules, and a perfectly good thread-local cache would raise false alarms (or a
/// bad one would go unnoticed behind garbage). With a fresh thread every run starts with pristine thread-local
/// state, exactly like the first use of the library in a new process; its thread-local destructors run when the
/// thread exits, while the arena is still intact, and only then is the slot released.
pub fn execute_plan(world: &dyn World, plan: &Plan, trace: bool) -> Outcome {
    execute_plan_with(world, plan, trace, &|| ())
}

/// `on_start` is called on the run's thread before anything else (the supervisor's in-flight table uses it to learn
/// which thread's CPU clock measures this run).
pub fn execute_plan_with(world: &dyn World, plan: &Plan, trace: bool, on_start: &dyn Fn()) -> Outcome {
    let (mut out, detached) = crate::fresh::on_fresh_thread(|| {
        crate::runner::warm_up();
        on_start();
        execute_plan_here(world, plan, trace)
    });
    // the run's thread has exited (its thread-local destructors have run): now the arena may be emptied
    if let Some(d) = detached {
        let st = alloc::release(d);
        out.stats.arena_bytes = st.bytes;
        out.stats.allocs = st.allocs;
    }
    out
}

fn execute_plan_here(world: &dyn World, plan: &Plan, trace: bool) -> (Outcome, Option<alloc::Detached>) {
    let big = plan.get_or("arena", 1) == 2;
    let slot = (plan.seed % if big { alloc::NUM_BIG_SLOTS } else { alloc::NUM_SLOTS } as u64) as usize;
    let use_arena = plan.get_or("arena", 1) != 0 && !cfg!(miri);
    if use_arena {
        alloc::arm_sized(
            slot,
            big,
            plan.get_or("place_off", 0) as usize,
            plan.get_or("place_pad_every", 0) as u32,
            plan.get_or("place_pad_bytes", 0) as u32,
        );
    }
    if use_arena && plan.get_or("reuse", 0) != 0 {
        // this run's allocator hands freed blocks out again (address re-use, alloc.rs)
        alloc::set_reuse(true);
    }
    IN_RUN.set(true);
    PANIC_MSG.with(|p| *p.borrow_mut() = None);
    let out_arena = {
        let mut ctx = Ctx::new(&plan.target, trace);
        ctx.ev(1, &[plan.seed]);
        rsdd::verif::arm(faults_to_hook_cfg(plan));
        let res = catch_unwind(AssertUnwindSafe(|| {
            // one run in four starts with "earlier work on this thread" (worlds/prelude.rs); `prelude` = 0 in the
            // configuration switches it off
            if plan.get_or("prelude", 1) != 0 && crate::worlds::prelude::wanted(plan.seed) {
                let was = rsdd::verif::set_faults_enabled(false);
                crate::worlds::prelude::run(plan.seed, matches!(world.name(), "sat" | "cnf" | "query" | "semhash" | "ffi"));
                rsdd::verif::set_faults_enabled(was);
                ctx.count("runs-with-earlier-work-on-the-thread", 1);
            }
            world.execute(plan, &mut ctx)
        }));
        let report = rsdd::verif::disarm();
        if ctx.abandoned {
            ctx.count("run-cut-short-over-memory-budget", 1);
            ctx.ev(3, &[1]);
        }
        if res.is_err() {
            // a panic escaped rsdd (or the harness) during an operation
            let raw = PANIC_MSG
                .with(|p| p.borrow_mut().take())
                .unwrap_or_else(|| "?|?".to_string());
            let (loc, msg) = raw.split_once('|').unwrap_or(("?", &raw));
            let prop = if ctx.cur_prop.is_empty() {
                "HARNESS"
            } else {
                ctx.cur_prop
            };
            if ctx.violation.is_none() {
                if is_harness_location(loc) {
                    // the harness itself panicked: harness error, never a verdict
                    ctx.violation = Some(Violation {
                        property: "HARNESS".to_string(),
                        check: format!("harness-panic@{loc}"),
                        step: ctx.step,
                        detail: msg.to_string(),
                    });
                } else if ctx.wants(prop) {
                    ctx.violation = Some(Violation {
                        property: prop.to_string(),
                        check: format!("panic@{loc}"),
                        step: ctx.step,
                        detail: msg.chars().take(300).collect(),
                    });
                } else {
                    ctx.foreign += 1;
                }
            }
        }
        for (s, n) in report.fired.iter() {
            ctx.ev(2, &[*s as u64, *n]);
        }
        let mut fired = [0u64; NUM_SITES];
        for (s, _) in report.fired.iter() {
            fired[*s as usize] += 1;
        }
        let log_hash = {
            let mut l = ctx.log.clone();
            for p in report.probes.iter() {
                l.word(*p);
            }
            l.finish()
        };
        Outcome {
            violation: ctx.violation.take(),
            log_hash,
            stats: RunStats {
                ops: ctx.ops,
                evals: ctx.evals,
                fired,
                visits: report.visits,
                probes: report.probes.clone(),
                counters: std::mem::take(&mut ctx.counters),
                foreign: ctx.foreign,
                nontrivial: ctx.nontrivial,
                states: std::mem::take(&mut ctx.states),
                arena_bytes: 0,
                allocs: 0,
            },
            trace: std::mem::take(&mut ctx.lines),
            fired: report.fired.clone(),
        }
    };
    IN_RUN.set(false);
    // deep copy into memory that outlives the arena
    let out = alloc::with_system(|| out_arena.clone());
    std::mem::forget(out_arena);
    let detached = if use_arena { Some(alloc::detach_sized(slot, big)) } else { None };
    (out, detached)
}

/// does this panic location lie in the harness (rather than in rsdd)? Harness panics are harness errors
/// (exit 2), never verdicts. rsdd's files live under /repo/src and keep a path such as `repr/bdd.rs`.
fn is_harness_location(loc: &str) -> bool {
    ["worlds/", "core.rs", "tt.rs", "runner.rs", "main.rs", "rng.rs", "alloc.rs", "supervise.rs", "props.rs"].iter().any(|p| loc.starts_with(p))
}

pub fn violation_class(v: &Violation) -> (String, String) {
    (v.property.clone(), v.check.clone())
}

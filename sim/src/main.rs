#![allow(dead_code)]
//! rsdd-sim: deterministic simulation with fault injection for neuppl/rsdd.
//!
//!   rsdd-sim check <PROP> [--tier quick|thorough]     (supervisor; spawns child-check)
//!   rsdd-sim replay <file>
//!   rsdd-sim run-one --world W --target P --seed S [--trace] [--thorough]
//!   rsdd-sim hashes --world W --target P --runs N [--threads T]
//!   rsdd-sim selftest determinism [--runs N]
//!
//! Exit codes: 0 property held on everything explored; 1 violation (a line
//! `VIOLATION property=<id> replay=<path>` is printed); 2 harness error.

mod alloc;
mod core;
mod fresh;
mod props;
mod rng;
mod runner;
mod supervise;
mod tt;
mod worlds;

use crate::core::*;
use crate::runner::*;
use std::collections::BTreeMap;

#[cfg(not(miri))]
#[global_allocator]
static GLOBAL: alloc::SimAlloc = alloc::SimAlloc;

fn arg_val(args: &[String], name: &str) -> Option<String> {
    args.iter().position(|a| a == name).and_then(|i| args.get(i + 1).cloned())
}
fn has_flag(args: &[String], name: &str) -> bool {
    args.iter().any(|a| a == name)
}

pub fn verif_seed() -> u64 {
    std::env::var("VERIF_SEED").ok().and_then(|s| s.trim().parse::<u64>().ok()).unwrap_or(1)
}
pub fn threads() -> usize {
    std::env::var("VERIF_THREADS")
        .ok()
        .and_then(|s| s.parse().ok())
        .unwrap_or_else(|| std::thread::available_parallelism().map(|n| n.get()).unwrap_or(8))
}
pub fn verif_root() -> String {
    std::env::var("VERIF_ROOT").unwrap_or_else(|_| "/verif".to_string())
}

fn main() {
    let args: Vec<String> = std::env::args().skip(1).collect();
    install_panic_hook();
    // everything runs on a thread with a large stack (deep vtrees / long implication chains recurse deeply)
    let code = std::thread::Builder::new().stack_size(512 << 20).spawn(move || dispatch(&args)).unwrap().join().unwrap_or(2);
    std::process::exit(code);
}

/// The first use of the library by this process, served by the system allocator: a short tour of every family
/// (weight maps, BDD / SDD / hash-identified builders, CNF, hasher, solver, top-down compilation) so that whatever
/// the library initialises lazily *for the whole process* (a `static` table, a `OnceLock`) lives in memory that no
/// run's arena will ever wipe. Result and panics are ignored (a panic here is the library's and will be met again,
/// attributed properly, inside the runs).
fn first_use_outside_any_arena() {
    let quiet = std::panic::take_hook();
    std::panic::set_hook(Box::new(|_| {}));
    for s in 1..=3u64 {
        let _ = std::panic::catch_unwind(|| fresh::on_fresh_thread(|| worlds::prelude::run(s, true)));
    }
    std::panic::set_hook(quiet);
}

fn dispatch(args: &[String]) -> i32 {
    let args: Vec<String> = args.to_vec();
    if matches!(args.first().map(|s| s.as_str()), Some("child-check" | "replay" | "run-one" | "hashes")) {
        first_use_outside_any_arena();
    }
    match args.first().map(|s| s.as_str()) {
        Some("check") => cmd_check(&args[1..]),
        Some("child-check") => cmd_child_check(&args[1..]),
        Some("replay") => cmd_replay(&args[1..]),
        Some("run-one") => cmd_run_one(&args[1..]),
        Some("hashes") => cmd_hashes(&args[1..]),
        Some("selftest") => cmd_selftest(&args[1..]),
        Some("chain-bench") => {
            chain_bench(args.get(1).and_then(|s| s.parse().ok()).unwrap_or(20));
            0
        }
        Some("find-cfg") => {
            // diagnostic: first run seeds (of the check's own seed sequence) whose generated plan has cfg[key] == value
            let (w, target, key, val) = (args[1].clone(), args[2].clone(), args[3].clone(), args[4].parse::<i64>().unwrap_or(1));
            let world = worlds::lookup(&w).expect("world");
            let mut found = 0;
            for i in 0..2_000_000u64 {
                let seed = runner::run_seed_of(verif_seed(), world.name(), &target, i);
                let plan = world.generate(seed, &target, false);
                if plan.get_or(&key, i64::MIN) == val {
                    println!("run #{i} seed {seed} cfg {:?} ops {}", plan.cfg, plan.ops.len());
                    found += 1;
                    if found >= 3 {
                        break;
                    }
                }
            }
            0
        }
        Some("psl-bench") => {
            psl_bench(args.get(1).and_then(|s| s.parse().ok()).unwrap_or(1_000_000), args.get(2).and_then(|s| s.parse().ok()).unwrap_or(1));
            0
        }
        _ => {
            eprintln!("usage: rsdd-sim check|replay|run-one|hashes|selftest ...");
            2
        }
    }
}

// ------------------------------------------------------------------ check (supervisor)

const WATCHDOG_EXIT: i32 = 87;
/// wall time after which a single run is declared hung (only ever used to give up)
fn hang_limit_s(thorough: bool) -> u64 {
    std::env::var("VERIF_HANG_LIMIT_S").ok().and_then(|s| s.parse().ok()).unwrap_or(if thorough { 900 } else { 300 })
}

fn cmd_check(args: &[String]) -> i32 {
    let prop = match args.first() {
        Some(p) => p.clone(),
        None => {
            eprintln!("check: property id expected");
            return 2;
        }
    };
    if props::spec(&prop).is_none() {
        eprintln!("check: unknown or unclaimed property {prop}");
        return 2;
    }
    let tier = arg_val(args, "--tier")
        .or_else(|| std::env::var("VERIF_TIER").ok())
        .unwrap_or_else(|| "quick".into());
    let thorough = tier == "thorough";
    let root = verif_root();
    let _ = std::fs::create_dir_all(format!("{root}/evidence"));
    let _ = std::fs::create_dir_all(format!("{root}/replays"));
    let inflight = format!("{root}/replays/.inflight-{}-{}", prop, std::process::id());
    let mut child_args = vec!["child-check".to_string(), prop.clone(), "--tier".into(), tier.clone(), "--inflight".into(), inflight.clone()];
    for opt in ["--scale", "--evidence-name"] {
        if let Some(s) = arg_val(args, opt) {
            child_args.push(opt.into());
            child_args.push(s);
        }
    }
    // generous wall budget: only to give up on a hang, never to decide a run
    let budget = if thorough { 12 * 3600 } else { 2 * 3600 };
    let end = supervise::run_child(&child_args, budget);
    let code = match end {
        supervise::ChildEnd::Exited(c) if c != WATCHDOG_EXIT => c,
        other => {
            let why = match other {
                supervise::ChildEnd::Exited(_) => format!("stopped itself: a run did not return within {} s (a typical run takes milliseconds)", hang_limit_s(thorough)),
                supervise::ChildEnd::Signalled(s) => format!("died on signal {s}"),
                _ => format!("exceeded the wall budget of {budget}s"),
            };
            eprintln!("check {prop}: child {why}; isolating the in-flight runs");
            isolate(&prop, thorough, &inflight, &why)
        }
    };
    let _ = std::fs::remove_file(&inflight);
    code
}

/// re-execute in-flight seeds one at a time in isolated children
fn isolate(prop: &str, thorough: bool, inflight: &str, why: &str) -> i32 {
    let root = verif_root();
    let list = supervise::read_inflight(inflight);
    for (world, seed) in list.iter() {
        let mut a = vec!["run-one".to_string(), "--world".into(), world.clone(), "--target".into(), prop.to_string(), "--seed".into(), seed.to_string(), "--quiet".into()];
        if thorough {
            a.push("--thorough".into());
        }
        let limit = hang_limit_s(thorough);
        // same budget as inside the batch: CPU seconds of the run, wall only as a distant backstop
        let end = supervise::run_child_cpu(&a, limit, limit * supervise::WALL_FACTOR);
        let bad = match end {
            supervise::ChildEnd::Exited(1) => Some("the run violates the property (found while isolating; not minimised because the minimiser's process crashed or hung)".to_string()),
            supervise::ChildEnd::Exited(_) => None,
            supervise::ChildEnd::Signalled(s) => Some(format!("process died on signal {s}")),
            supervise::ChildEnd::TimedOut => Some(format!("run did not return within {limit} s (a typical run takes milliseconds)")),
        };
        if let Some(what) = bad {
            // write the (unminimised) plan as the replay
            if let Some(w) = worlds::lookup(world) {
                let plan = w.generate(*seed, prop, thorough);
                let v = Violation {
                    property: prop.to_string(),
                    check: "call-did-not-return".into(),
                    step: 0,
                    detail: what.clone(),
                };
                let rf = ReplayFile {
                    property: prop.to_string(),
                    violation: v,
                    run_seed: *seed,
                    expected_log_hash: "n/a (the run does not complete)".into(),
                    pretty: plan.ops.iter().enumerate().map(|(i, o)| format!("{i}: {}", w.render_op(o))).collect(),
                    original_ops: plan.ops.len(),
                    original_faults: 0,
                    minimise_executions: 0,
                    plan,
                };
                let path = format!("{root}/replays/{prop}-{world}-{seed}-crash.json");
                let _ = std::fs::write(&path, serde_json::to_string_pretty(&rf).unwrap());
                println!("run {world}/{seed}: {what}");
                println!("VIOLATION property={prop} replay={path}");
                write_min_evidence(prop, thorough, 1, &format!("child {why}; isolated run {world}/{seed}: {what}"));
                return 1;
            }
        }
    }
    eprintln!("check {prop}: child {why} but no in-flight run reproduces it in isolation: harness error (in flight: {:?})", list);
    2
}

fn write_min_evidence(prop: &str, thorough: bool, violations: i64, note: &str) {
    let root = verif_root();
    let ev = serde_json::json!({
        "property_id": prop,
        "tier": if thorough { "thorough" } else { "quick" },
        "seed": verif_seed(),
        "level": "exploration",
        "coverage": {
            "evaluations": 1,
            "distinct_nontrivial": 2,
            "rule": "check aborted: the simulator child crashed or hung; see note",
            "samples": [note],
        },
        "assumptions": [],
        "wall_s": 0.0,
        "violations": violations,
    });
    let _ = std::fs::write(format!("{root}/evidence/{prop}.json"), serde_json::to_string_pretty(&ev).unwrap());
}

// ------------------------------------------------------------------ child-check

struct Known {
    id: String,
    property: String,
    world: String,
    check: String,
    detail: Option<String>,
    text: String,
}

fn load_known() -> Vec<Known> {
    let root = verif_root();
    let mut v = Vec::new();
    let s = std::fs::read_to_string(format!("{root}/known-findings.txt")).unwrap_or_default();
    for line in s.lines() {
        let line = line.trim();
        if !line.starts_with("finding:") {
            continue;
        }
        let mut kv: BTreeMap<String, String> = BTreeMap::new();
        for tok in line.split_whitespace() {
            if let Some((k, val)) = tok.split_once('=') {
                kv.insert(k.to_string(), val.to_string());
            }
        }
        let detail = line.split_once("detail~=\"").and_then(|(_, r)| r.split_once('"')).map(|(d, _)| d.to_string());
        if let (Some(p), Some(id), Some(w), Some(c)) = (kv.get("property"), kv.get("id"), kv.get("world"), kv.get("check")) {
            v.push(Known {
                id: id.clone(),
                property: p.clone(),
                world: w.clone(),
                check: c.clone(),
                detail,
                text: line.to_string(),
            });
        }
    }
    v
}

fn match_known<'a>(known: &'a [Known], world: &str, v: &Violation) -> Option<&'a Known> {
    known.iter().find(|k| {
        k.property == v.property
            && k.world == world
            && k.check == v.check
            && k.detail.as_ref().map(|d| v.detail.contains(d.as_str())).unwrap_or(true)
    })
}

fn cmd_child_check(args: &[String]) -> i32 {
    let prop = args[0].clone();
    let spec = props::spec(&prop).unwrap();
    let tier = arg_val(args, "--tier").unwrap_or_else(|| "quick".into());
    let thorough = tier == "thorough";
    let scale: f64 = arg_val(args, "--scale").and_then(|s| s.parse().ok()).unwrap_or(1.0);
    let seed = verif_seed();
    let root = verif_root();
    let inflight: Option<&'static supervise::Inflight> = arg_val(args, "--inflight").map(|p| &*Box::leak(Box::new(supervise::Inflight::create(&p))));
    if let Some(inf) = inflight {
        // watchdog: time (CPU seconds of the worker thread, wall as a distant backstop) is only used to give up
        // on a run that does not return
        let limit = hang_limit_s(thorough);
        std::thread::spawn(move || loop {
            std::thread::sleep(std::time::Duration::from_millis(500));
            if inf.longest_inflight_s() >= limit {
                inf.keep_only_slow(limit);
                eprintln!("watchdog: a run has been executing for {limit} s; stopping so that the supervisor can isolate it");
                std::process::exit(WATCHDOG_EXIT);
            }
        });
    }
    let known = load_known();
    println!("rsdd-sim check {prop} tier={tier} VERIF_SEED={seed} threads={}", threads());

    let t0 = std::time::Instant::now();
    let mut total = BatchResult::default();
    let mut per_world = Vec::new();
    let mut exit = 0;
    let mut known_seen: BTreeMap<String, (String, u64)> = BTreeMap::new();
    let mut violation_samples = Vec::new();

    for b in spec.batches.iter() {
        let world = worlds::lookup(b.world).expect("world");
        let runs = ((if thorough { b.thorough } else { b.quick }) as f64 * scale).ceil() as u64;
        if runs == 0 {
            continue;
        }
        let known_fn = |w: &str, v: &Violation| match_known(&known, w, v).map(|k| k.id.clone());
        // The first use of the library by this process happens outside any arena: whatever the code under test
        // initialises lazily for the whole process (a `static` table, a `OnceLock`) must not live in memory that is
        // emptied when a run ends. One ordinary run of this world, served by the system allocator, result ignored
        // (the batch below repeats it inside an arena).
        for i in 0..64 {
            let s0 = runner::run_seed_of(seed, world.name(), &prop, i);
            let mut plan = world.generate(s0, &prop, thorough);
            if plan.get_or("arena", 1) != 1 || plan.ops.len() > 400 {
                continue;
            }
            plan.cfg.insert("arena".into(), 0);
            if let Some(inf) = inflight {
                inf.publish(0, world.name(), s0);
            }
            let _ = execute_plan_with(world, &plan, false, &|| {
                if let Some(inf) = inflight {
                    inf.running_on_this_thread(0);
                }
            });
            if let Some(inf) = inflight {
                inf.clear(0);
            }
            break;
        }
        let res = run_batch(&BatchSpec {
            world,
            target: &prop,
            base_seed: seed,
            runs,
            thorough,
            threads: threads(),
            inflight,
            needs_fault_effect: b.needs_fault_effect,
            known: &known_fn,
        });
        if let Some((s, v)) = res.harness_errors.first() {
            eprintln!("HARNESS ERROR in world {} run-seed {}: {} :: {}", b.world, s, v.check, v.detail);
            return 2;
        }
        merge(&mut total, &res);
        per_world.push(serde_json::json!({
            "world": b.world, "runs": res.runs, "operations": res.ops, "invariant_evaluations": res.evals,
            "wall_s": (res.wall_s * 1000.0).round() / 1000.0,
            "distinct_event_logs": res.distinct_logs.len(),
            "slowest_run_seed": res.slowest.0, "slowest_run_ms": res.slowest.1,
        }));
        // listed findings: report each once (with a minimised replay of its first occurrence) and carry on
        for (id, (hits, _idx, run_seed, v)) in res.known_hits.iter() {
            let plan = world.generate(*run_seed, &prop, thorough);
            let (min, mv, mh, execs) = minimise(world, &plan, v, 1500);
            let path = write_replay(world, &format!("{root}/replays"), &plan, &min, &mv, mh, execs);
            let k = known.iter().find(|k| &k.id == id).unwrap();
            println!("KNOWN-FINDING: property={} {} seen in {} run(s) of world {}; first: seed {} [{}] {} replay={} ({})", prop, id, hits, b.world, run_seed, mv.check, mv.detail, path, k.text);
            let e = known_seen.entry(id.clone()).or_insert((path.clone(), 0));
            e.1 += hits;
        }
        if let Some((idx, run_seed, v)) = res.violations.first().cloned() {
            let plan = world.generate(run_seed, &prop, thorough);
            if let Some(inf) = inflight {
                // minimisation re-executes variants of this run: keep it visible to the supervisor
                inf.publish(supervise::MAX_WORKERS - 1, b.world, run_seed);
            }
            let (min, mv, mh, execs) = minimise(world, &plan, &v, 4000);
            if let Some(inf) = inflight {
                inf.clear(supervise::MAX_WORKERS - 1);
            }
            let path = write_replay(world, &format!("{root}/replays"), &plan, &min, &mv, mh, execs);
            println!(
                "violation in world {} run #{idx} seed {run_seed}: [{}] {} (minimised {} -> {} ops in {execs} executions)",
                b.world, mv.check, mv.detail, plan.ops.len(), min.ops.len()
            );
            println!("VIOLATION property={} replay={}", prop, path);
            violation_samples.push(serde_json::json!({"world": b.world, "run_seed": run_seed, "check": mv.check, "detail": mv.detail, "replay": path}));
            exit = 1;
        }
        if exit != 0 {
            break;
        }
    }
    let wall = t0.elapsed().as_secs_f64();
    let ev_name = arg_val(args, "--evidence-name").unwrap_or_else(|| prop.clone());
    write_evidence(&prop, &ev_name, &spec, thorough, seed, &total, &per_world, wall, exit, &known_seen, &violation_samples);
    println!(
        "check {prop}: {} runs, {} operations, {} invariant evaluations, {} faults fired, {} distinct non-trivial logs, {:.1}s -> {}",
        total.runs,
        total.ops,
        total.evals,
        total.fired.iter().sum::<u64>(),
        total.distinct_nontrivial.len(),
        wall,
        if exit == 0 { "held" } else { "VIOLATED" }
    );
    exit
}

fn merge(a: &mut BatchResult, r: &BatchResult) {
    a.runs += r.runs;
    a.ops += r.ops;
    a.evals += r.evals;
    a.foreign += r.foreign;
    for s in 0..NUM_SITES {
        a.fired[s] += r.fired[s];
        a.visits[s] += r.visits[s];
    }
    if a.probes.len() < r.probes.len() {
        a.probes.resize(r.probes.len(), 0);
    }
    for (k, v) in r.probes.iter().enumerate() {
        a.probes[k] += v;
    }
    for (k, v) in r.counters.iter() {
        *a.counters.entry(k.clone()).or_insert(0) += v;
    }
    a.distinct_logs.extend(r.distinct_logs.iter().copied());
    a.distinct_nontrivial.extend(r.distinct_nontrivial.iter().copied());
    a.states.extend(r.states.iter().copied());
    a.arena_bytes_max = a.arena_bytes_max.max(r.arena_bytes_max);
    if a.samples.len() < 4 {
        a.samples.extend(r.samples.iter().cloned());
    }
}

#[allow(clippy::too_many_arguments)]
fn write_evidence(
    prop: &str,
    ev_name: &str,
    spec: &props::PropSpec,
    thorough: bool,
    seed: u64,
    t: &BatchResult,
    per_world: &[serde_json::Value],
    wall: f64,
    exit: i32,
    known_seen: &BTreeMap<String, (String, u64)>,
    violation_samples: &[serde_json::Value],
) {
    let root = verif_root();
    let mut faults = serde_json::Map::new();
    let mut visits = serde_json::Map::new();
    for s in 0..NUM_SITES {
        faults.insert(rsdd::verif::SITE_NAMES[s].into(), t.fired[s].into());
        visits.insert(rsdd::verif::SITE_NAMES[s].into(), t.visits[s].into());
    }
    let mut probes = serde_json::Map::new();
    let mut zero = Vec::new();
    for (i, v) in t.probes.iter().enumerate() {
        let name = rsdd::verif::probe_name(i);
        if spec.probe_prefixes.iter().any(|p| name.starts_with(p)) {
            probes.insert(name.clone(), (*v).into());
            if *v == 0 {
                zero.push(name);
            }
        }
    }
    let mut samples = t.samples.clone();
    if samples.is_empty() {
        samples.push(serde_json::json!({"note": "no sample captured"}));
    }
    // a preceding pass of the same check built like a user's `cargo build --release` (no debug assertions, wrapping arithmetic)
    let shipped_pass: serde_json::Value = if ev_name == prop {
        std::fs::read_to_string(format!("{root}/evidence/{prop}.shipped-profile.json"))
            .ok()
            .and_then(|s| serde_json::from_str::<serde_json::Value>(&s).ok())
            .map(|v| serde_json::json!({
                "runs": v["coverage"]["simulated_runs"], "operations": v["coverage"]["simulated_time_steps"],
                "violations": v["violations"], "wall_s": v["wall_s"], "tier": v["tier"], "seed": v["seed"],
                "note": "same worlds, binary built with debug-assertions and overflow-checks off"
            }))
            .unwrap_or(serde_json::Value::Null)
    } else {
        serde_json::Value::Null
    };
    let ev = serde_json::json!({
        "property_id": prop,
        "tier": if thorough { "thorough" } else { "quick" },
        "seed": seed,
        "level": "exploration",
        "coverage": {
            "evaluations": t.runs,
            "build_profile": if cfg!(debug_assertions) { "optimised, debug-assertions and overflow-checks ON (rsdd's own debug_assert!s act as extra monitors)" } else { "shipped: debug-assertions and overflow-checks OFF" },
            "shipped_profile_pass": shipped_pass,
            "distinct_nontrivial": t.distinct_nontrivial.len(),
            "rule": spec.rule,
            "samples": samples,
            "simulated_runs": t.runs,
            "simulated_time_steps": t.ops,
            "simulated_time_note": "rsdd has no clock; simulated time is the number of scheduled operations",
            "invariant_evaluations": t.evals,
            "runs_per_hour": if wall > 0.0 { (t.runs as f64 / wall * 3600.0) as u64 } else { 0 },
            "distinct_event_logs": t.distinct_logs.len(),
            "distinct_states": t.states.len(),
            "distinct_states_measure": spec.states_measure,
            "faults_fired": faults,
            "fault_point_visits": visits,
            "probe_hits": probes,
            "probes_at_zero": zero,
            "counters": t.counters,
            "violations_of_other_properties_seen_not_reported": t.foreign,
            "worlds": per_world,
            "max_arena_bytes_per_run": t.arena_bytes_max,
            "components_real": spec.real,
            "components_simulated": spec.simulated,
            "known_findings_seen": known_seen.iter().map(|(k, (p, n))| serde_json::json!({"id": k, "replay": p, "count": n})).collect::<Vec<_>>(),
            "violation_samples": violation_samples,
            "exhaustive": false,
        },
        "assumptions": spec.assumptions,
        "wall_s": (wall * 1000.0).round() / 1000.0,
        "violations": if exit == 0 { 0 } else { 1 },
    });
    std::fs::write(format!("{root}/evidence/{ev_name}.json"), serde_json::to_string_pretty(&ev).unwrap()).expect("write evidence");
}

// ------------------------------------------------------------------ replay / run-one

fn cmd_replay(args: &[String]) -> i32 {
    let path = match args.first() {
        Some(p) => p,
        None => return 2,
    };
    let s = match std::fs::read_to_string(path) {
        Ok(s) => s,
        Err(e) => {
            eprintln!("replay: cannot read {path}: {e}");
            return 2;
        }
    };
    let rf: ReplayFile = match serde_json::from_str(&s) {
        Ok(r) => r,
        Err(e) => {
            eprintln!("replay: bad replay file: {e}");
            return 2;
        }
    };
    let world = match worlds::lookup(&rf.plan.world) {
        Some(w) => w,
        None => return 2,
    };
    runner::warm_up();
    let out = execute_plan(world, &rf.plan, true);
    if has_flag(args, "--trace") {
        for l in out.trace.iter() {
            println!("{l}");
        }
    }
    let h = format!("{:016x}", out.log_hash);
    match out.violation {
        Some(v) if v.property == rf.violation.property && v.check == rf.violation.check => {
            println!("replayed: [{}] {}", v.check, v.detail);
            println!("log hash {} (expected {})", h, rf.expected_log_hash);
            if h == rf.expected_log_hash {
                println!("VIOLATION property={} replay={}", v.property, path);
                1
            } else {
                println!("same violation class but a different event log: not an exact reproduction");
                println!("VIOLATION property={} replay={}", v.property, path);
                3
            }
        }
        Some(v) => {
            println!("replay produced a different violation: [{}/{}] {}", v.property, v.check, v.detail);
            3
        }
        None => {
            println!("replay: no violation (the property holds on this schedule with the current tree); log hash {h}");
            0
        }
    }
}

fn cmd_run_one(args: &[String]) -> i32 {
    let world = worlds::lookup(&arg_val(args, "--world").unwrap_or_default());
    let world = match world {
        Some(w) => w,
        None => {
            eprintln!("run-one: unknown world");
            return 2;
        }
    };
    let target = arg_val(args, "--target").unwrap_or_else(|| "*".into());
    let seed: u64 = arg_val(args, "--seed").and_then(|s| s.parse().ok()).unwrap_or(1);
    let mut plan = world.generate(seed, &target, has_flag(args, "--thorough"));
    if has_flag(args, "--no-arena") {
        plan.cfg.insert("arena".into(), 0);
    }
    // --cfg key=value[,key=value...] overrides configuration entries of the generated plan (diagnostics)
    if let Some(kv) = arg_val(args, "--cfg") {
        for item in kv.split(',') {
            if let Some((k, v)) = item.split_once('=') {
                if let Ok(v) = v.parse::<i64>() {
                    plan.cfg.insert(k.to_string(), v);
                }
            }
        }
    }
    if let Some(n) = arg_val(args, "--max-ops").and_then(|s| s.parse::<usize>().ok()) {
        plan.ops.truncate(n);
    }
    runner::warm_up();
    let out = execute_plan(world, &plan, has_flag(args, "--trace"));
    if !has_flag(args, "--quiet") {
        println!("cfg: {:?}", plan.cfg);
        for l in out.trace.iter() {
            println!("{l}");
        }
        println!("ops={} evals={} fired={:?} log={:016x} arena={}B", out.stats.ops, out.stats.evals, out.stats.fired, out.log_hash, out.stats.arena_bytes);
    }
    match out.violation {
        Some(v) => {
            if !has_flag(args, "--quiet") {
                println!("violation: {}/{} at step {}: {}", v.property, v.check, v.step, v.detail);
            }
            1
        }
        None => 0,
    }
}

// ------------------------------------------------------------------ determinism

/// digest of (seed -> log hash) over `runs` runs
fn hashes_of(world: &dyn World, target: &str, runs: u64, nthreads: usize, thorough: bool) -> Vec<(u64, u64)> {
    let next = std::sync::atomic::AtomicU64::new(0);
    let out = std::sync::Mutex::new(Vec::new());
    std::thread::scope(|sc| {
        for _ in 0..nthreads {
            std::thread::Builder::new()
                .stack_size(16 << 20)
                .spawn_scoped(sc, || {
                    runner::warm_up();
                    let mut local = Vec::new();
                    loop {
                        let i = next.fetch_add(1, std::sync::atomic::Ordering::Relaxed);
                        if i >= runs {
                            break;
                        }
                        let seed = run_seed_of(verif_seed(), world.name(), target, i);
                        let plan = world.generate(seed, target, thorough);
                        let o = execute_plan(world, &plan, false);
                        local.push((i, o.log_hash));
                    }
                    out.lock().unwrap().extend(local);
                })
                .unwrap();
        }
    });
    let mut v = out.into_inner().unwrap();
    v.sort();
    v
}

fn cmd_hashes(args: &[String]) -> i32 {
    let world = match worlds::lookup(&arg_val(args, "--world").unwrap_or_default()) {
        Some(w) => w,
        None => return 2,
    };
    let target = arg_val(args, "--target").unwrap_or_else(|| "*".into());
    let runs: u64 = arg_val(args, "--runs").and_then(|s| s.parse().ok()).unwrap_or(500);
    let nthreads: usize = arg_val(args, "--threads").and_then(|s| s.parse().ok()).unwrap_or_else(threads);
    let v = hashes_of(world, &target, runs, nthreads, has_flag(args, "--thorough"));
    let mut d = rng::LogHash::new();
    for (i, h) in v.iter() {
        d.word(*i);
        d.word(*h);
        if has_flag(args, "--list") {
            println!("{i} {h:016x}");
        }
    }
    println!("digest {:016x} runs {}", d.finish(), v.len());
    0
}

fn cmd_selftest(args: &[String]) -> i32 {
    let runs: u64 = arg_val(args, "--runs").and_then(|s| s.parse().ok()).unwrap_or(2000);
    let procs: usize = arg_val(args, "--procs").and_then(|s| s.parse().ok()).unwrap_or(20);
    let only = arg_val(args, "--world");
    let mut bad = 0;
    for w in worlds::all() {
        if let Some(o) = &only {
            if o != w.name() {
                continue;
            }
        }
        let target = "*";
        let a = hashes_of(w, target, runs, threads(), false);
        let b = hashes_of(w, target, runs, 3, false);
        let mism = a.iter().zip(b.iter()).filter(|(x, y)| x != y).count();
        let mut d = rng::LogHash::new();
        for (i, h) in a.iter() {
            d.word(*i);
            d.word(*h);
        }
        let digest = format!("digest {:016x} runs {}", d.finish(), a.len());
        // separate processes at 1 and many workers
        let mut proc_bad = 0;
        let exe = std::env::current_exe().unwrap();
        let mut children = Vec::new();
        for p in 0..procs {
            let t = if p % 2 == 0 { "1".to_string() } else { threads().to_string() };
            let runs_p = if p % 2 == 0 { runs.min(400) } else { runs };
            let c = std::process::Command::new(&exe)
                .args(["hashes", "--world", w.name(), "--target", target, "--runs", &runs_p.to_string(), "--threads", &t])
                .output();
            children.push((runs_p, c));
        }
        // reference digest for the short prefix
        let mut d2 = rng::LogHash::new();
        for (i, h) in a.iter().take(runs.min(400) as usize) {
            d2.word(*i);
            d2.word(*h);
        }
        let digest_short = format!("digest {:016x} runs {}", d2.finish(), runs.min(400));
        for (runs_p, c) in children {
            let ok = match c {
                Ok(o) => {
                    let s = String::from_utf8_lossy(&o.stdout);
                    let want = if runs_p == runs { &digest } else { &digest_short };
                    s.lines().any(|l| l == want)
                }
                Err(_) => false,
            };
            if !ok {
                proc_bad += 1;
            }
        }
        println!(
            "determinism {}: {} seeds, in-process mismatches {} (16 vs 3 workers), {} of {} separate processes disagree; {}",
            w.name(),
            runs,
            mism,
            proc_bad,
            procs,
            digest
        );
        if mism > 0 || proc_bad > 0 {
            bad += 1;
        }
    }
    if bad > 0 {
        println!("DETERMINISM FAILURE in {bad} world(s): harness error");
        2
    } else {
        println!("determinism: all worlds replay bit-identically (event logs include raw node addresses)");
        0
    }
}

/// diagnostic: how long does rsdd take to build OR_i (x_p(2i) & x_p(2i+1)) along the order, top-down, under a shuffled order?
/// diagnostic (not a check): fill the unique table with `n` random BDD-shaped nodes at its shipped capacity and
/// growth policy; in this profile (overflow checks on) a probe length beyond the u8 `psl` field panics
pub fn psl_bench(n: usize, seed: u64) {
    use rsdd::repr::{BddNode, BddPtr, VarLabel};
    use rsdd::verif::{BackedRobinhoodTable, UniqueTable};
    let tbl: *mut BackedRobinhoodTable<'static, BddNode<'static>> = Box::leak(Box::new(BackedRobinhoodTable::<BddNode>::new()));
    let mut r = rng::Rng::new(seed);
    let mut nodes: Vec<&'static BddNode<'static>> = Vec::with_capacity(n);
    let t0 = std::time::Instant::now();
    for i in 0..n {
        let (lo, hi) = if i < 2 {
            (BddPtr::PtrFalse, BddPtr::PtrTrue)
        } else {
            let a = nodes[r.below(i as u64) as usize];
            let b = nodes[r.below(i as u64) as usize];
            (if r.bool() { BddPtr::Reg(a) } else { BddPtr::Compl(a) }, BddPtr::Reg(b))
        };
        let nd = BddNode::new(VarLabel::new(r.below(64)), lo, hi);
        let p: &'static BddNode<'static> = unsafe { (*tbl).get_or_insert(nd) };
        nodes.push(p);
        if i > 0 && i % 5_000_000 == 0 {
            println!("{i} nodes, {:?}", t0.elapsed());
        }
    }
    println!("{n} insertions, {} distinct nodes, {:?}: no probe length beyond 255", unsafe { (*tbl).num_nodes() }, t0.elapsed());
}

pub fn chain_bench(n: usize) {
    use rsdd::builder::bdd::RobddBuilder;
    use rsdd::builder::cache::AllIteTable;
    use rsdd::builder::BottomUpBuilder;
    use rsdd::repr::{BddPtr, VarLabel, VarOrder};
    for shuffled in [false, true] {
        rsdd::verif::arm(rsdd::verif::Config { table_capacity: Some(4), ..Default::default() });
        let mut perm: Vec<usize> = (0..n).collect();
        if shuffled {
            rng::Rng::new(4751 ^ 0x0bde).shuffle(&mut perm);
        }
        let labels: Vec<VarLabel> = perm.iter().map(|v| VarLabel::new(*v as u64)).collect();
        let b: &'static RobddBuilder<'static, AllIteTable<BddPtr<'static>>> = Box::leak(Box::new(RobddBuilder::new(VarOrder::new(&labels))));
        let t0 = std::time::Instant::now();
        let mut acc = b.false_ptr();
        let mut i = 5;
        while i + 1 < n {
            let (va, vb) = (b.order().var_at_level(i), b.order().var_at_level(i + 1));
            let t = b.and(b.var(va, true), b.var(vb, true));
            acc = b.or(acc, t);
            i += 2;
        }
        println!("n={n} shuffled={shuffled}: {:?}, {} recursive calls", t0.elapsed(), b.num_recursive_calls());
    }
}

//! The allocator seam: memory placement under simulator control.
//!
//! While a run is armed on the current thread every allocation of that thread
//! is served by a bump pointer inside a private region mapped at an address
//! that is a function of the run seed only. Node addresses (which rsdd hashes)
//! therefore do not depend on ASLR, malloc state, the worker thread or what
//! other runs are doing.

use std::alloc::{GlobalAlloc, Layout, System};
use std::cell::Cell;
use std::sync::atomic::{AtomicBool, AtomicU64, Ordering};

pub const ARENA_BASE: usize = 0x6000_0000_0000;
pub const SLOT_BITS: usize = 30; // 1 GiB per slot
pub const NUM_SLOTS: usize = 4096;
pub const ARENA_END: usize = ARENA_BASE + (NUM_SLOTS << SLOT_BITS);
/// a second range of a few very large slots for the shipped-capacity scenarios
pub const BIG_BASE: usize = ARENA_END;
pub const BIG_SLOT_BITS: usize = 34; // 16 GiB per slot
pub const NUM_BIG_SLOTS: usize = 64;
pub const BIG_END: usize = BIG_BASE + (NUM_BIG_SLOTS << BIG_SLOT_BITS);

pub struct SimAlloc;

#[derive(Clone, Copy)]
struct ArenaState {
    /// next free address; 0 = not armed (system allocator)
    cur: usize,
    end: usize,
    /// address of the most recent allocation (for in-place realloc)
    last: usize,
    /// placement pattern: add `pad_bytes` after every `pad_every`-th allocation
    pad_every: u32,
    pad_bytes: u32,
    count: u32,
    /// temporarily route to the system allocator (data that must outlive the run)
    system_depth: u32,
    allocs: u64,
    peak: usize,
    /// 0 = still inside the primary slot; otherwise 1 + index of the big slot the run overflowed into
    overflow: usize,
    /// bytes used in the primary slot when the run overflowed
    primary_peak: usize,
    /// may this run overflow (only runs whose primary slot is a small one)
    may_overflow: bool,
}

/// how much of its overflow slot a run may use before it is declared runaway
pub const OVERFLOW_LIMIT: usize = 6 << 30;

thread_local! {
    static ARENA: Cell<ArenaState> = const { Cell::new(ArenaState {
        cur: 0, end: 0, last: 0, pad_every: 0, pad_bytes: 0, count: 0, system_depth: 0, allocs: 0, peak: 0,
        overflow: 0, primary_peak: 0, may_overflow: false,
    }) };
}

thread_local! {
    /// cheap mirror of `ArenaState::overflow != 0` for the per-invariant test
    static OVERFLOWED: Cell<bool> = const { Cell::new(false) };
}

/// Optional address re-use (`set_reuse`): a freed block goes onto a LIFO list of its size class and is handed out
/// again to the next request of that size, so that "a new object lands on a dead object's address" -- which real
/// allocators do all the time -- is something a run can reach, reproducibly. Off by default: addresses are then
/// never re-used inside a run.
const SMALL_CLASSES: usize = 257; // sizes up to 4096 bytes in 16-byte steps
const LARGE_SLOTS: usize = 128;
struct FreeLists {
    small: [usize; SMALL_CLASSES],
    large: [(usize, usize); LARGE_SLOTS],
    nlarge: usize,
}
thread_local! {
    static FREE: std::cell::UnsafeCell<FreeLists> = const { std::cell::UnsafeCell::new(FreeLists { small: [0; SMALL_CLASSES], large: [(0, 0); LARGE_SLOTS], nlarge: 0 }) };
    static REUSE: Cell<bool> = const { Cell::new(false) };
}

/// switch address re-use on or off for the arena armed on this thread (forgets every freed block)
pub fn set_reuse(on: bool) {
    REUSE.set(on);
    FREE.with(|f| unsafe {
        let f = &mut *f.get();
        f.small = [0; SMALL_CLASSES];
        f.nlarge = 0;
    });
}

#[inline]
unsafe fn take_free(layout: Layout) -> usize {
    if layout.align() > 16 {
        return 0;
    }
    let rounded = (layout.size().max(1) + 15) & !15;
    FREE.with(|f| {
        let f = &mut *f.get();
        let c = rounded / 16;
        if c < SMALL_CLASSES {
            let head = f.small[c];
            if head != 0 {
                f.small[c] = *(head as *const usize);
            }
            head
        } else {
            let mut i = f.nlarge;
            while i > 0 {
                i -= 1;
                if f.large[i].1 == rounded {
                    let a = f.large[i].0;
                    f.large.copy_within(i + 1..f.nlarge, i);
                    f.nlarge -= 1;
                    return a;
                }
            }
            0
        }
    })
}

#[inline]
unsafe fn put_free(ptr: usize, layout: Layout) {
    if layout.align() > 16 {
        return;
    }
    let rounded = (layout.size().max(1) + 15) & !15;
    FREE.with(|f| {
        let f = &mut *f.get();
        let c = rounded / 16;
        if c < SMALL_CLASSES {
            *(ptr as *mut usize) = f.small[c];
            f.small[c] = ptr;
        } else if f.nlarge < LARGE_SLOTS {
            f.large[f.nlarge] = (ptr, rounded);
            f.nlarge += 1;
        }
    })
}

static BUSY: [AtomicU64; (NUM_SLOTS + NUM_BIG_SLOTS) / 64] = [const { AtomicU64::new(0) }; (NUM_SLOTS + NUM_BIG_SLOTS) / 64];
static MAPPED: [AtomicBool; NUM_SLOTS + NUM_BIG_SLOTS] = [const { AtomicBool::new(false) }; NUM_SLOTS + NUM_BIG_SLOTS];

#[inline]
fn in_arena(p: usize) -> bool {
    (ARENA_BASE..BIG_END).contains(&p)
}

unsafe impl GlobalAlloc for SimAlloc {
    #[inline]
    unsafe fn alloc(&self, layout: Layout) -> *mut u8 {
        let mut st = ARENA.get();
        if st.cur == 0 || st.system_depth > 0 {
            return System.alloc(layout);
        }
        if REUSE.get() {
            let p = take_free(layout);
            if p != 0 {
                // (not the bump frontier: must never be extended in place)
                st.last = 0;
                st.allocs += 1;
                ARENA.set(st);
                return p as *mut u8;
            }
        }
        let align = layout.align().max(16);
        let mut start = (st.cur + align - 1) & !(align - 1);
        let mut next = start + layout.size();
        st.count += 1;
        let pad = if st.pad_every != 0 && st.count % st.pad_every == 0 { st.pad_bytes as usize } else { 0 };
        next += pad;
        if next > st.end {
            if st.may_overflow && st.overflow == 0 && layout.size() + pad + 4096 < OVERFLOW_LIMIT {
                // The run outgrew its slot: continue in the big slot that belongs to it (a function of
                // the primary slot only, so addresses stay reproducible). The run is flagged and the
                // simulator abandons it at the next invariant evaluation (memory budget, not a verdict).
                let slot = ((st.end - 1 - ARENA_BASE) >> SLOT_BITS) % NUM_BIG_SLOTS;
                let base = claim(slot, true);
                st.primary_peak = st.peak;
                st.overflow = 1 + slot;
                OVERFLOWED.set(true);
                st.cur = base + 64;
                st.end = base + OVERFLOW_LIMIT;
                st.peak = base;
                st.last = 0;
                start = (st.cur + align - 1) & !(align - 1);
                next = start + layout.size() + pad;
            } else {
                // a runaway allocation: the call is not going to return in any useful sense
                let msg = b"rsdd-sim: arena exhausted: a run needs more than its slot and its overflow budget\n";
                libc::write(2, msg.as_ptr() as *const libc::c_void, msg.len());
                // die on a signal so that the supervisor isolates the in-flight run
                libc::abort();
            }
        }
        st.last = start;
        st.cur = next;
        st.allocs += 1;
        if next > st.peak {
            st.peak = next;
        }
        ARENA.set(st);
        start as *mut u8
    }

    #[inline]
    unsafe fn dealloc(&self, ptr: *mut u8, layout: Layout) {
        if in_arena(ptr as usize) {
            if REUSE.get() {
                let mut st = ARENA.get();
                if st.cur != 0 && st.system_depth == 0 {
                    if st.last == ptr as usize {
                        st.last = 0;
                        ARENA.set(st);
                    }
                    put_free(ptr as usize, layout);
                }
            }
            return;
        }
        System.dealloc(ptr, layout)
    }

    #[inline]
    unsafe fn realloc(&self, ptr: *mut u8, layout: Layout, new_size: usize) -> *mut u8 {
        let p = ptr as usize;
        if !in_arena(p) {
            // a block that started life in the system allocator stays there
            return System.realloc(ptr, layout, new_size);
        }
        let mut st = ARENA.get();
        if st.cur != 0 && st.system_depth == 0 && st.last == p {
            // most recent allocation: extend (or shrink) in place
            let next = p + new_size;
            if next <= st.end {
                if next > st.cur {
                    st.cur = next;
                    if next > st.peak {
                        st.peak = next;
                    }
                    ARENA.set(st);
                }
                return ptr;
            }
        }
        let new = self.alloc(Layout::from_size_align_unchecked(new_size, layout.align()));
        if !new.is_null() {
            std::ptr::copy_nonoverlapping(ptr, new, layout.size().min(new_size));
            if REUSE.get() {
                self.dealloc(ptr, layout);
            }
        }
        new
    }
}

pub struct ArenaStats {
    pub allocs: u64,
    pub bytes: usize,
}

/// Map the region for `slot` and arm the arena on this thread.
/// Panics (harness error) if the fixed range is unavailable.
pub fn arm(slot: usize, offset: usize, pad_every: u32, pad_bytes: u32) {
    arm_sized(slot, false, offset, pad_every, pad_bytes)
}

fn slot_geometry(slot: usize, big: bool) -> (usize, usize, usize) {
    // (base, len, index into BUSY/MAPPED)
    if big {
        (BIG_BASE + (slot << BIG_SLOT_BITS), 1usize << BIG_SLOT_BITS, NUM_SLOTS + slot)
    } else {
        (ARENA_BASE + (slot << SLOT_BITS), 1usize << SLOT_BITS, slot)
    }
}

/// Wait for the slot, map it if this process has not done so yet, return its base address.
/// Allocation-free (it is called from inside the allocator when a run overflows).
fn claim(slot: usize, big: bool) -> usize {
    // wait for the slot (affects wall time only)
    let (base, len, idx) = slot_geometry(slot, big);
    let (w, b) = (idx / 64, idx % 64);
    loop {
        let prev = BUSY[w].fetch_or(1 << b, Ordering::Acquire);
        if prev & (1 << b) == 0 {
            break;
        }
        std::thread::yield_now();
    }
    // a slot's region is mapped once per process and then only emptied
    // (MADV_DONTNEED gives back zero pages), which avoids the mmap write lock
    if !MAPPED[idx].load(Ordering::Acquire) {
        let p = unsafe {
            libc::mmap(
                base as *mut libc::c_void,
                len,
                libc::PROT_READ | libc::PROT_WRITE,
                libc::MAP_PRIVATE | libc::MAP_ANONYMOUS | libc::MAP_NORESERVE | libc::MAP_FIXED_NOREPLACE,
                -1,
                0,
            )
        };
        if p as usize != base {
            let msg = b"rsdd-sim: cannot map an arena slot at its fixed address -- harness error\n";
            unsafe {
                libc::write(2, msg.as_ptr() as *const libc::c_void, msg.len());
                libc::_exit(2);
            }
        }
        MAPPED[idx].store(true, Ordering::Release);
    }
    base
}

pub fn arm_sized(slot: usize, big: bool, offset: usize, pad_every: u32, pad_bytes: u32) {
    assert!(slot < if big { NUM_BIG_SLOTS } else { NUM_SLOTS });
    assert!(ARENA.get().cur == 0, "arena already armed on this thread");
    let base = claim(slot, big);
    let len = slot_geometry(slot, big).1;
    set_reuse(false);
    ARENA.set(ArenaState {
        cur: base + 64 + (offset & !15),
        end: base + len,
        last: 0,
        pad_every,
        pad_bytes: pad_bytes & !15,
        count: 0,
        system_depth: 0,
        allocs: 0,
        peak: base,
        overflow: 0,
        primary_peak: 0,
        may_overflow: !big,
    });
}

/// did the current run outgrow its primary slot?
#[inline]
pub fn overflowed() -> bool {
    OVERFLOWED.get()
}

/// Disarm and unmap. Nothing allocated in the arena may be touched afterwards.
pub fn disarm(slot: usize) -> ArenaStats {
    disarm_sized(slot, false)
}

pub fn disarm_sized(slot: usize, big: bool) -> ArenaStats {
    release(detach_sized(slot, big))
}

/// A run's arena after the thread that used it stopped allocating from it, before its memory is given back.
pub struct Detached {
    st: ArenaState,
    slot: usize,
    big: bool,
}
// (plain addresses and counters; handed from the run's thread to the thread that releases the slot)
unsafe impl Send for Detached {}

/// Stop serving this thread from the arena (later allocations go to the system allocator, later frees of arena
/// addresses are ignored) but keep the slot and its contents: thread-local destructors of the code under test may
/// still read what they allocated during the run. `release` gives the slot back.
pub fn detach_sized(slot: usize, big: bool) -> Detached {
    let st = ARENA.get();
    assert!(st.cur != 0);
    ARENA.set(ArenaState {
        cur: 0,
        end: 0,
        last: 0,
        pad_every: 0,
        pad_bytes: 0,
        count: 0,
        system_depth: 0,
        allocs: 0,
        peak: 0,
        overflow: 0,
        primary_peak: 0,
        may_overflow: false,
    });
    OVERFLOWED.set(false);
    set_reuse(false);
    Detached { st, slot, big }
}

/// Empty the slot(s) of a detached arena and mark them free. Nothing allocated in the arena may be touched afterwards.
pub fn release(d: Detached) -> ArenaStats {
    let st = d.st;
    let (base, _len, idx) = slot_geometry(d.slot, d.big);
    let release = |base: usize, peak: usize, idx: usize| {
        unsafe {
            let used = (peak.saturating_sub(base) + 4095) & !4095;
            if used > 0 {
                libc::madvise(base as *mut libc::c_void, used, libc::MADV_DONTNEED);
            }
        }
        let (w, b) = (idx / 64, idx % 64);
        BUSY[w].fetch_and(!(1 << b), Ordering::Release);
    };
    let mut bytes = st.peak.saturating_sub(base);
    if st.overflow != 0 {
        let (obase, _olen, oidx) = slot_geometry(st.overflow - 1, true);
        release(obase, st.peak, oidx);
        release(base, st.primary_peak, idx);
        bytes = st.primary_peak.saturating_sub(base) + st.peak.saturating_sub(obase);
    } else {
        release(base, st.peak, idx);
    }
    ArenaStats {
        allocs: st.allocs,
        bytes,
    }
}

/// Run `f` with allocations routed to the system allocator (for data that
/// must outlive the run).
pub fn with_system<R>(f: impl FnOnce() -> R) -> R {
    struct Guard;
    impl Drop for Guard {
        fn drop(&mut self) {
            let mut st = ARENA.get();
            st.system_depth -= 1;
            ARENA.set(st);
        }
    }
    let mut st = ARENA.get();
    st.system_depth += 1;
    ARENA.set(st);
    let _g = Guard;
    f()
}

pub fn is_armed() -> bool {
    ARENA.get().cur != 0
}

//! One integer decides everything: SplitMix64-seeded xoshiro256** streams.

#[inline]
pub fn splitmix(state: &mut u64) -> u64 {
    *state = state.wrapping_add(0x9E37_79B9_7F4A_7C15);
    let mut z = *state;
    z = (z ^ (z >> 30)).wrapping_mul(0xBF58_476D_1CE4_E5B9);
    z = (z ^ (z >> 27)).wrapping_mul(0x94D0_49BB_1331_11EB);
    z ^ (z >> 31)
}

/// mix two integers into one (used to derive run seeds and stream seeds)
pub fn mix(a: u64, b: u64) -> u64 {
    let mut s = a ^ b.rotate_left(32) ^ 0xD6E8_FEB8_6659_FD93;
    let x = splitmix(&mut s);
    let mut t = x ^ b;
    splitmix(&mut t)
}

pub fn str_hash(s: &str) -> u64 {
    let mut h: u64 = 0xcbf2_9ce4_8422_2325;
    for b in s.bytes() {
        h ^= b as u64;
        h = h.wrapping_mul(0x1000_0000_01b3);
    }
    h
}

#[derive(Clone, Debug)]
pub struct Rng {
    s: [u64; 4],
}

impl Rng {
    pub fn new(seed: u64) -> Rng {
        let mut sm = seed;
        let s = [
            splitmix(&mut sm),
            splitmix(&mut sm),
            splitmix(&mut sm),
            splitmix(&mut sm),
        ];
        Rng { s }
    }

    /// an independent stream named `name` derived from `seed`
    pub fn stream(seed: u64, name: &str) -> Rng {
        Rng::new(mix(seed, str_hash(name)))
    }

    #[inline]
    pub fn next(&mut self) -> u64 {
        let result = self.s[1].wrapping_mul(5).rotate_left(7).wrapping_mul(9);
        let t = self.s[1] << 17;
        self.s[2] ^= self.s[0];
        self.s[3] ^= self.s[1];
        self.s[1] ^= self.s[2];
        self.s[0] ^= self.s[3];
        self.s[2] ^= t;
        self.s[3] = self.s[3].rotate_left(45);
        result
    }

    /// uniform in 0..n (n > 0)
    #[inline]
    pub fn below(&mut self, n: u64) -> u64 {
        debug_assert!(n > 0);
        // multiply-shift; bias is irrelevant here
        ((self.next() as u128 * n as u128) >> 64) as u64
    }

    #[inline]
    pub fn range(&mut self, lo: i64, hi_incl: i64) -> i64 {
        lo + self.below((hi_incl - lo + 1) as u64) as i64
    }

    #[inline]
    pub fn chance(&mut self, num: u64, den: u64) -> bool {
        self.below(den) < num
    }

    #[inline]
    pub fn bool(&mut self) -> bool {
        self.next() & 1 == 1
    }

    pub fn pick<'a, T>(&mut self, xs: &'a [T]) -> &'a T {
        &xs[self.below(xs.len() as u64) as usize]
    }

    /// pick an index according to integer weights
    pub fn weighted(&mut self, weights: &[u32]) -> usize {
        let total: u64 = weights.iter().map(|w| *w as u64).sum();
        let mut r = self.below(total.max(1));
        for (i, w) in weights.iter().enumerate() {
            if r < *w as u64 {
                return i;
            }
            r -= *w as u64;
        }
        weights.len() - 1
    }

    pub fn shuffle<T>(&mut self, xs: &mut [T]) {
        for i in (1..xs.len()).rev() {
            let j = self.below(i as u64 + 1) as usize;
            xs.swap(i, j);
        }
    }
}

/// 64-bit running hash of the event log (FNV-1a over u64 words, then finalised)
#[derive(Clone, Debug)]
pub struct LogHash(pub u64);

impl LogHash {
    pub fn new() -> LogHash {
        LogHash(0xcbf2_9ce4_8422_2325)
    }
    #[inline]
    pub fn word(&mut self, w: u64) {
        let mut h = self.0;
        h ^= w;
        h = h.wrapping_mul(0x1000_0000_01b3);
        h ^= h >> 29;
        self.0 = h;
    }
    pub fn finish(&self) -> u64 {
        let mut s = self.0;
        splitmix(&mut s)
    }
}

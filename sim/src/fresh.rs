//! A fresh OS thread per run, cheaply.
//!
//! `std::thread` maps and unmaps a stack (plus an alternate signal stack) for every thread; with sixteen workers
//! starting thousands of threads per second those address-space changes (each a TLB shoot-down across all cores,
//! very expensive inside a VM) cost more than the runs themselves. Here every *calling* thread owns one stack
//! region, mapped once, and starts its children on it with `pthread_attr_setstack`: per run that leaves one
//! `clone`, one thread exit and one join. The child is a real, new thread: every `thread_local!` of the code under
//! test starts from its initial value and its destructor runs when the child exits.

use std::cell::Cell;
use std::ffi::c_void;
use std::panic::{catch_unwind, resume_unwind, AssertUnwindSafe};

/// stack of a run's thread (rsdd recurses on diagram depth; pages are only touched on demand)
const STACK_LEN: usize = 256 << 20;
const GUARD: usize = 64 << 10;

thread_local! {
    /// base address of the stack region this thread gives to its children (0 = not mapped yet)
    static CHILD_STACK: Cell<usize> = const { Cell::new(0) };
}

fn child_stack() -> usize {
    let b = CHILD_STACK.get();
    if b != 0 {
        return b;
    }
    let p = unsafe {
        libc::mmap(
            std::ptr::null_mut(),
            STACK_LEN + GUARD,
            libc::PROT_READ | libc::PROT_WRITE,
            libc::MAP_PRIVATE | libc::MAP_ANONYMOUS | libc::MAP_NORESERVE | libc::MAP_STACK,
            -1,
            0,
        )
    };
    if p == libc::MAP_FAILED {
        eprintln!("rsdd-sim: cannot map a stack for run threads -- harness error");
        std::process::exit(2);
    }
    // stacks grow downwards: the lowest pages are the guard (an overflow kills the process with SIGSEGV, which the
    // supervisor reports like any other hard crash)
    unsafe {
        libc::mprotect(p, GUARD, libc::PROT_NONE);
    }
    CHILD_STACK.set(p as usize);
    p as usize
}

extern "C" fn trampoline(arg: *mut c_void) -> *mut c_void {
    let body = unsafe { &mut *(arg as *mut &mut dyn FnMut()) };
    body();
    std::ptr::null_mut()
}

/// Run `f` to completion on a new thread and return its result; a panic of `f` is re-raised here.
/// (Scoped: the caller blocks until the child has exited, so `f` may borrow from the caller's stack. The child
/// does run concurrently with *other* workers, as every run always did.)
pub fn on_fresh_thread<R>(f: impl FnOnce() -> R) -> R {
    if cfg!(miri) {
        // Miri has no pthread_attr_setstack; a plain scoped std thread is fresh enough there
        return std::thread::scope(|sc| {
            let f = AssertUnwindSafe(f);
            // SAFETY of the Send requirement: the caller blocks until the child is done (scoped)
            struct SendPtr<T>(T);
            unsafe impl<T> Send for SendPtr<T> {}
            let g = SendPtr(f);
            match sc.spawn(move || { let g = g; SendPtr((g.0).0()) }).join() {
                Ok(r) => r.0,
                Err(e) => resume_unwind(e),
            }
        });
    }
    let mut f = Some(f);
    let mut res: Option<std::thread::Result<R>> = None;
    {
        let mut body = || {
            let g = f.take().expect("run body called twice");
            res = Some(catch_unwind(AssertUnwindSafe(g)));
        };
        let mut dyn_body: &mut dyn FnMut() = &mut body;
        let arg = &mut dyn_body as *mut &mut dyn FnMut() as *mut c_void;
        let base = child_stack();
        unsafe {
            let mut attr: libc::pthread_attr_t = std::mem::zeroed();
            let mut tid: libc::pthread_t = std::mem::zeroed();
            let ok = libc::pthread_attr_init(&mut attr) == 0
                && libc::pthread_attr_setstack(&mut attr, (base + GUARD) as *mut c_void, STACK_LEN) == 0
                && libc::pthread_create(&mut tid, &attr, trampoline, arg) == 0;
            libc::pthread_attr_destroy(&mut attr);
            if !ok {
                eprintln!("rsdd-sim: cannot start a thread for a run -- harness error");
                std::process::exit(2);
            }
            // returns once the child has left its stack for good
            libc::pthread_join(tid, std::ptr::null_mut());
        }
    }
    match res.expect("the run's thread ended without a result") {
        Ok(r) => r,
        Err(e) => resume_unwind(e),
    }
}

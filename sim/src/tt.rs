//! The oracle for Boolean functions: 128-bit truth tables over at most 7
//! variables. Bit `i` of a table is the value of the function on the
//! assignment in which variable `v` has value `(i >> v) & 1`.
//! Written from the textbook definitions; shares no code with rsdd.

pub type TT = u128;
pub const MAXV: usize = 7;
pub const TRUE: TT = !0u128;
pub const FALSE: TT = 0u128;

pub const VAR: [TT; MAXV] = [
    0xAAAAAAAA_AAAAAAAA_AAAAAAAA_AAAAAAAA,
    0xCCCCCCCC_CCCCCCCC_CCCCCCCC_CCCCCCCC,
    0xF0F0F0F0_F0F0F0F0_F0F0F0F0_F0F0F0F0,
    0xFF00FF00_FF00FF00_FF00FF00_FF00FF00,
    0xFFFF0000_FFFF0000_FFFF0000_FFFF0000,
    0xFFFFFFFF_00000000_FFFFFFFF_00000000,
    0xFFFFFFFF_FFFFFFFF_00000000_00000000,
];

#[inline]
pub fn lit(v: usize, polarity: bool) -> TT {
    if polarity {
        VAR[v]
    } else {
        !VAR[v]
    }
}

#[inline]
pub fn ite(f: TT, g: TT, h: TT) -> TT {
    (f & g) | (!f & h)
}

#[inline]
pub fn iff(a: TT, b: TT) -> TT {
    !(a ^ b)
}

/// f | v = val
#[inline]
pub fn restrict(f: TT, v: usize, val: bool) -> TT {
    let sh = 1u32 << v;
    if val {
        let hi = f & VAR[v];
        hi | (hi >> sh)
    } else {
        let lo = f & !VAR[v];
        lo | (lo << sh)
    }
}

#[inline]
pub fn exists(f: TT, v: usize) -> TT {
    restrict(f, v, true) | restrict(f, v, false)
}

/// rsdd documents compose(f, v, g) as  exists v. ((v <=> g) /\ f)
#[inline]
pub fn compose_doc(f: TT, v: usize, g: TT) -> TT {
    exists(iff(VAR[v], g) & f, v)
}

#[inline]
pub fn depends_on(f: TT, v: usize) -> bool {
    restrict(f, v, true) != restrict(f, v, false)
}

/// bitmask of the variables `f` depends on
pub fn support(f: TT) -> u32 {
    let mut m = 0;
    for v in 0..MAXV {
        if depends_on(f, v) {
            m |= 1 << v;
        }
    }
    m
}

#[inline]
pub fn eval(f: TT, assignment: u32) -> bool {
    (f >> (assignment & 127)) & 1 == 1
}

pub fn hi(t: TT) -> u64 {
    (t >> 64) as u64
}
pub fn lo(t: TT) -> u64 {
    t as u64
}

pub fn show(t: TT) -> String {
    format!("{:032x}", t)
}

/// number of models over the first `n` variables (function must not depend on others)
pub fn count_models(f: TT, n: usize) -> u64 {
    let mask: TT = if n >= 7 { !0 } else { (1u128 << (1 << n)) - 1 };
    (f & mask).count_ones() as u64
}

#[cfg(test)]
mod tests {
    use super::*;
    #[test]
    fn basics() {
        for v in 0..MAXV {
            for i in 0..128u32 {
                assert_eq!(eval(VAR[v], i), (i >> v) & 1 == 1);
            }
            assert_eq!(restrict(VAR[v], v, true), TRUE);
            assert_eq!(restrict(VAR[v], v, false), FALSE);
            assert_eq!(support(VAR[v]), 1 << v);
        }
        let f = (VAR[0] & VAR[3]) | VAR[5];
        for i in 0..128u32 {
            let r = restrict(f, 3, true);
            assert_eq!(eval(r, i), eval(f, i | 8));
            let r = restrict(f, 3, false);
            assert_eq!(eval(r, i), eval(f, i & !8));
        }
        assert_eq!(support(f), 0b101001);
        assert_eq!(compose_doc(f, 3, VAR[1]), (VAR[0] & VAR[1]) | VAR[5]);
    }
}

//! "Earlier work on this thread": a short, seeded use of *other* parts and *other sizes* of the library before a
//! run's own scenario starts, on the run's thread and inside its arena.
//!
//! Every run executes on a fresh thread (core.rs), so library-side thread-local state starts pristine. Real
//! programs are not like that: by the time a builder is created its thread has usually built other, differently
//! sized things. State the library keeps per thread or per process (a cache of weights or primes that is extended
//! on demand, a memo keyed by addresses, a counter) therefore has to meet a *history*, not only a first use. One
//! run in four gets such a history: a few small objects of each family are created, used and dropped here. Nothing
//! is checked (every world checks its own scenario); a panic in here is the library's and is not attributed to any
//! property (the run is skipped and counted under `foreign`).

use crate::rng::{mix, Rng};
use rsdd::builder::bdd::RobddBuilder;
use rsdd::builder::cache::{AllIteTable, LruIteTable};
use rsdd::builder::decision_nnf::{DecisionNNFBuilder, SemanticDecisionNNFBuilder, StandardDecisionNNFBuilder};
use rsdd::builder::sdd::{CompressionSddBuilder, SddBuilder, SemanticSddBuilder};
use rsdd::builder::{BottomUpBuilder, TopDownBuilder};
use rsdd::constants::primes::{U32_SMALL, U32_TINY, U64_LARGEST};
use rsdd::repr::{create_semantic_hash_map, BddPtr, Cnf, DDNNFPtr, Literal, PartialModel, SATSolver, SddPtr, VTree, VarLabel, VarOrder, VarSet};

/// does the run with this seed start with earlier work? (a pure function of the run seed, so replays agree)
pub fn wanted(run_seed: u64) -> bool {
    mix(run_seed, 0x70726c75) % 4 == 0
}

fn small_cnf(r: &mut Rng, nv: u64) -> Vec<Vec<Literal>> {
    let mut v = Vec::new();
    for _ in 0..(1 + r.below(6)) {
        let mut c = Vec::new();
        for _ in 0..(1 + r.below(3)) {
            c.push(Literal::new(VarLabel::new(r.below(nv)), r.bool()));
        }
        v.push(c);
    }
    v
}

/// `heavy`: also the CNF side (a formula, its hasher, a solver, a top-down compilation) -- each `Cnf::new` /
/// `SATSolver::new` costs about a millisecond in rsdd, so only worlds that pay that anyway ask for it
pub fn run(run_seed: u64, heavy: bool) {
    let mut r = Rng::new(mix(run_seed, 0x65617269));
    // weight maps of a few small sizes under every exported prime (in increasing or decreasing size order)
    let mut sizes: Vec<usize> = vec![1 + r.below(8) as usize, 9 + r.below(40) as usize, 60 + r.below(200) as usize];
    if r.bool() {
        sizes.reverse();
    }
    for n in sizes.iter() {
        let _ = create_semantic_hash_map::<U32_TINY>(*n);
        let _ = create_semantic_hash_map::<U32_SMALL>(*n);
        let _ = create_semantic_hash_map::<U64_LARGEST>(*n);
    }
    // a small BDD builder of each cache kind: a few operations, a conditioning, the queries that use per-node state
    let n = 2 + r.below(5) as usize;
    {
        let b: &'static RobddBuilder<'static, AllIteTable<BddPtr<'static>>> = Box::leak(Box::new(RobddBuilder::new(VarOrder::linear_order(n))));
        let mut f = b.var(VarLabel::new(0), true);
        for v in 1..n {
            let x = b.var(VarLabel::new(v as u64), r.bool());
            f = match r.below(3) {
                0 => b.and(f, x),
                1 => b.or(f, x),
                _ => b.xor(f, x),
            };
        }
        let _ = b.condition(f, VarLabel::new(r.below(n as u64)), r.bool());
        let _ = b.exists(f, VarLabel::new(r.below(n as u64)));
        let map = create_semantic_hash_map::<U64_LARGEST>(n);
        let _ = f.cached_semantic_hash(b.order(), &map);
        let _ = f.semantic_hash(&map);
        let _ = f.count_nodes();
        let _ = b.smooth(f, n);
    }
    {
        let b: &'static RobddBuilder<'static, LruIteTable<BddPtr<'static>>> = Box::leak(Box::new(RobddBuilder::new(VarOrder::linear_order(n))));
        let mut f = b.var(VarLabel::new(0), false);
        for v in 1..n {
            let x = b.var(VarLabel::new(v as u64), r.bool());
            f = if r.bool() { b.and(f, x) } else { b.iff(f, x) };
        }
        let _ = b.negate(f);
    }
    // a small SDD builder (compressing) and a hash-identified one
    {
        let labels: Vec<VarLabel> = (0..n as u64).map(VarLabel::new).collect();
        let vt = if r.bool() { VTree::right_linear(&labels) } else { VTree::even_split(&labels, 1 + r.below(2) as usize) };
        let b: &'static CompressionSddBuilder<'static> = Box::leak(Box::new(CompressionSddBuilder::new(vt.clone())));
        let mut f = b.var(VarLabel::new(0), true);
        for v in 1..n {
            let x = b.var(VarLabel::new(v as u64), r.bool());
            f = if r.bool() { b.and(f, x) } else { b.or(f, x) };
        }
        let _ = b.condition(f, VarLabel::new(r.below(n as u64)), r.bool());
        let map = create_semantic_hash_map::<U32_SMALL>(n);
        let _ = f.cached_semantic_hash(b.vtree_manager(), &map);
        let _ = f.count_nodes();
        let s: &'static SemanticSddBuilder<'static, U64_LARGEST> = Box::leak(Box::new(SemanticSddBuilder::new(vt)));
        let mut g: SddPtr<'static> = s.var(VarLabel::new(0), true);
        for v in 1..n {
            let x = s.var(VarLabel::new(v as u64), r.bool());
            g = if r.bool() { s.and(g, x) } else { s.or(g, x) };
        }
        let _ = s.negate(g);
    }
    // partial models and variable sets
    {
        let mut m = PartialModel::new(8 + r.below(100) as usize);
        let mut s = VarSet::new();
        for _ in 0..(2 + r.below(8)) {
            let v = VarLabel::new(r.below(8));
            m.set(v, r.bool());
            s.insert(v);
            if r.below(3) == 0 {
                m.unset(v);
                s.remove(v);
            }
        }
        let _ = m.assignment_iter().count();
    }
    if heavy {
        let nv = 2 + r.below(5);
        let clauses = small_cnf(&mut r, nv);
        let cnf = Cnf::new(&clauses);
        let mut h = cnf.hasher().clone();
        h.push();
        h.decide(Literal::new(VarLabel::new(r.below(nv)), r.bool()));
        let _ = h.hash(&PartialModel::new(cnf.num_vars()));
        h.pop();
        if let Some(mut s) = SATSolver::new(cnf.clone()) {
            let l = Literal::new(VarLabel::new(r.below(nv)), r.bool());
            if !s.is_set(l.label()) {
                let _ = s.decide(l);
                let _ = s.cur_hash();
                s.pop();
            }
        }
        let order = VarOrder::linear_order(cnf.num_vars());
        let t: &'static StandardDecisionNNFBuilder<'static> = Box::leak(Box::new(StandardDecisionNNFBuilder::new(order.clone())));
        let d = t.compile_cnf_topdown(&cnf);
        let _ = t.condition(d, VarLabel::new(r.below(nv)), r.bool());
        let _ = d.count_nodes();
        let u: &'static SemanticDecisionNNFBuilder<'static, U64_LARGEST> = Box::leak(Box::new(SemanticDecisionNNFBuilder::new(order)));
        let _ = u.compile_cnf_topdown(&cnf);
    }
}

//! `sdd` world (C03, C04, third sentence of C16).
//!
//! K logical callers share one real `CompressionSddBuilder` over a random
//! vtree, compression on or off. Truth-table model, independent evaluator over
//! elements / binary nodes / complement variants, structural audit of every
//! reachable node (C04, compression on), fault-free twin (C16).

use crate::core::*;
use crate::rng::{mix, Rng};
use crate::tt::{self, TT};
use crate::worlds::bdd::{gen_operand, perm_from_index};
use rsdd::builder::sdd::{CompressionSddBuilder, SddBuilder};
use rsdd::builder::BottomUpBuilder;
use rsdd::repr::{BinarySDD, DDNNFPtr, SddAnd, SddOr, SddPtr, VTree, VarLabel};
use std::collections::{BTreeMap, BTreeSet};

pub struct SddWorld;

pub const K_VAR: u8 = 0;
pub const K_CONST: u8 = 1;
pub const K_NEG: u8 = 2;
pub const K_AND: u8 = 3;
pub const K_OR: u8 = 4;
pub const K_XOR: u8 = 5;
pub const K_IFF: u8 = 6;
pub const K_ITE: u8 = 7;
pub const K_COND: u8 = 8;
pub const K_EXISTS: u8 = 9;
pub const K_COMPOSE: u8 = 10;
pub const K_EQ: u8 = 11;
pub const K_REISSUE: u8 = 12;
pub const K_AUDIT: u8 = 13;
/// a clause of the fixed clause table, built as a disjunction of literals
pub const K_CLAUSE: u8 = 14;
/// compile_cnf of one to three clauses of the same table (so that compiled formulas and separately built
/// clauses of them meet in later operations)
pub const K_COMPILE: u8 = 15;
/// a read-only public query on a handle between two updates (cached semantic hash, plain semantic hash, node
/// count): its answer is C10's business, here it is an event that later results must not depend on
pub const K_QUERY: u8 = 16;
const NKINDS: usize = 17;
const KNAMES: [&str; NKINDS] = [
    "var", "const", "negate", "and", "or", "xor", "iff", "ite", "condition", "exists", "compose", "eq", "reissue", "audit", "clause", "compile_cnf", "query",
];

/// clause number `id` of the fixed clause table over `nvars` variables: one to three literals
pub fn table_clause(id: usize, nvars: usize) -> Vec<(usize, bool)> {
    let h = crate::rng::mix(0xC1A05E, id as u64);
    let len = 1 + (h % 3) as usize;
    (0..len).map(|j| (((h >> (8 + 8 * j)) as usize) % nvars, (h >> (40 + j)) & 1 == 1)).collect()
}

fn clause_tt(c: &[(usize, bool)]) -> TT {
    c.iter().fold(tt::FALSE, |a, (v, p)| a | tt::lit(*v, *p))
}

pub type Ptr = SddPtr<'static>;

pub fn pkey(p: Ptr) -> (usize, u8) {
    match p {
        SddPtr::PtrTrue => (0, 0),
        SddPtr::PtrFalse => (0, 1),
        SddPtr::Var(l, pol) => (l.value_usize() * 2 + pol as usize, 2),
        SddPtr::BDD(b) => (b as *const BinarySDD as usize, 3),
        SddPtr::ComplBDD(b) => (b as *const BinarySDD as usize, 4),
        SddPtr::Reg(o) => (o as *const SddOr as usize, 5),
        SddPtr::Compl(o) => (o as *const SddOr as usize, 6),
    }
}
pub fn show(p: Ptr) -> String {
    let (a, k) = pkey(p);
    match k {
        0 => "T".into(),
        1 => "F".into(),
        2 => format!("{}x{}", if a & 1 == 1 { "" } else { "!" }, a / 2),
        3 => format!("bdd@{a:#x}"),
        4 => format!("~bdd@{a:#x}"),
        5 => format!("or@{a:#x}"),
        _ => format!("~or@{a:#x}"),
    }
}

/// independent evaluator over the public node fields
pub fn walk(p: Ptr, memo: &mut BTreeMap<usize, TT>) -> TT {
    match p {
        SddPtr::PtrTrue => tt::TRUE,
        SddPtr::PtrFalse => tt::FALSE,
        SddPtr::Var(l, pol) => tt::lit(l.value_usize().min(tt::MAXV - 1), pol),
        SddPtr::BDD(b) => bdd_tt(b, memo),
        SddPtr::ComplBDD(b) => !bdd_tt(b, memo),
        SddPtr::Reg(o) => or_tt(o, memo),
        SddPtr::Compl(o) => !or_tt(o, memo),
    }
}
fn bdd_tt(b: &'static BinarySDD<'static>, memo: &mut BTreeMap<usize, TT>) -> TT {
    let a = b as *const BinarySDD as usize;
    if let Some(t) = memo.get(&a) {
        return *t;
    }
    let t = tt::ite(tt::VAR[b.label().value_usize().min(tt::MAXV - 1)], walk(b.high(), memo), walk(b.low(), memo));
    memo.insert(a, t);
    t
}
fn or_tt(o: &'static SddOr<'static>, memo: &mut BTreeMap<usize, TT>) -> TT {
    let a = o as *const SddOr as usize;
    if let Some(t) = memo.get(&a) {
        return *t;
    }
    let mut t = tt::FALSE;
    for e in o.iter() {
        t |= walk(e.prime(), memo) & walk(e.sub(), memo);
    }
    memo.insert(a, t);
    t
}

/// second reader: only through node_iter()/is_neg(), negation pushed to the
/// subs the way the library's own traversals read a complemented node
pub fn walk_acc(p: Ptr, memo: &mut BTreeMap<(usize, u8), TT>) -> TT {
    match p {
        SddPtr::PtrTrue => tt::TRUE,
        SddPtr::PtrFalse => tt::FALSE,
        SddPtr::Var(l, pol) => tt::lit(l.value_usize().min(tt::MAXV - 1), pol),
        _ => {
            let k = pkey(p);
            if let Some(t) = memo.get(&k) {
                return *t;
            }
            let mut t = tt::FALSE;
            for e in p.node_iter() {
                let s = if p.is_neg() { e.sub().neg() } else { e.sub() };
                t |= walk_acc(e.prime(), memo) & walk_acc(s, memo);
            }
            memo.insert(k, t);
            t
        }
    }
}

/// canonical structural signature (independent of addresses and element order)
pub fn sig(p: Ptr, memo: &mut BTreeMap<usize, u64>) -> u64 {
    match p {
        SddPtr::PtrTrue => 0x11,
        SddPtr::PtrFalse => 0x22,
        SddPtr::Var(l, pol) => mix(0x33, l.value() * 2 + pol as u64),
        SddPtr::BDD(b) => bdd_sig(b, memo),
        SddPtr::ComplBDD(b) => mix(bdd_sig(b, memo), 0xC0),
        SddPtr::Reg(o) => or_sig(o, memo),
        SddPtr::Compl(o) => mix(or_sig(o, memo), 0xC0),
    }
}
fn bdd_sig(b: &'static BinarySDD<'static>, memo: &mut BTreeMap<usize, u64>) -> u64 {
    let a = b as *const BinarySDD as usize;
    if let Some(s) = memo.get(&a) {
        return *s;
    }
    let s = mix(mix(mix(0x44, b.label().value()), b.index().value() as u64), mix(sig(b.low(), memo), sig(b.high(), memo)));
    memo.insert(a, s);
    s
}
fn or_sig(o: &'static SddOr<'static>, memo: &mut BTreeMap<usize, u64>) -> u64 {
    let a = o as *const SddOr as usize;
    if let Some(s) = memo.get(&a) {
        return *s;
    }
    let mut es: Vec<u64> = o.iter().map(|e| mix(sig(e.prime(), memo), sig(e.sub(), memo))).collect();
    es.sort_unstable();
    let mut s = mix(0x55, o.index().value() as u64);
    for e in es {
        s = mix(s, e);
    }
    memo.insert(a, s);
    s
}

/// all decision nodes reachable from p (by address), as regular pointers
pub fn collect(p: Ptr, out: &mut BTreeMap<usize, Ptr>) {
    match p {
        SddPtr::BDD(b) | SddPtr::ComplBDD(b) => {
            let a = b as *const BinarySDD as usize;
            if out.contains_key(&a) {
                return;
            }
            out.insert(a, SddPtr::BDD(b));
            collect(b.low(), out);
            collect(b.high(), out);
        }
        SddPtr::Reg(o) | SddPtr::Compl(o) => {
            let a = o as *const SddOr as usize;
            if out.contains_key(&a) {
                return;
            }
            out.insert(a, SddPtr::Reg(o));
            for e in o.iter() {
                collect(e.prime(), out);
                collect(e.sub(), out);
            }
        }
        _ => {}
    }
}

/// size of the diagram unfolded into a tree (what rsdd's structural `Ord` on pointers walks)
pub fn tree_size(p: Ptr, memo: &mut BTreeMap<usize, u64>) -> u64 {
    match p {
        SddPtr::BDD(b) | SddPtr::ComplBDD(b) => {
            let a = b as *const BinarySDD as usize;
            if let Some(s) = memo.get(&a) {
                return *s;
            }
            let s = 1u64.saturating_add(tree_size(b.low(), memo)).saturating_add(tree_size(b.high(), memo));
            memo.insert(a, s);
            s
        }
        SddPtr::Reg(o) | SddPtr::Compl(o) => {
            let a = o as *const SddOr as usize;
            if let Some(s) = memo.get(&a) {
                return *s;
            }
            let mut s = 1u64;
            for e in o.iter() {
                s = s.saturating_add(tree_size(e.prime(), memo)).saturating_add(tree_size(e.sub(), memo));
            }
            memo.insert(a, s);
            s
        }
        _ => 1,
    }
}

pub fn build_vtree(nvars: usize, shape: i64, vt_seed: u64, perm_idx: u64) -> VTree {
    let perm = perm_from_index(nvars, perm_idx);
    let order: Vec<VarLabel> = perm.iter().map(|v| VarLabel::new(*v as u64)).collect();
    build_vtree_from_order(&order, shape, vt_seed)
}

pub fn build_vtree_from_order(order: &[VarLabel], shape: i64, vt_seed: u64) -> VTree {
    let nvars = order.len();
    fn random(order: &[VarLabel], r: &mut Rng) -> VTree {
        if order.len() == 1 {
            return VTree::new_leaf(order[0]);
        }
        let split = 1 + r.below(order.len() as u64 - 1) as usize;
        let (l, rr) = order.split_at(split);
        VTree::new_node(Box::new(random(l, r)), Box::new(random(rr, r)))
    }
    if nvars == 1 {
        return VTree::new_leaf(order[0]);
    }
    match shape {
        0 => VTree::right_linear(order),
        1 => VTree::left_linear(order),
        2 => VTree::even_split(order, 1),
        3 => VTree::even_split(order, (usize::BITS - 1 - nvars.leading_zeros()) as usize),
        _ => random(order, &mut Rng::new(vt_seed)),
    }
}

pub fn leaves_mask(v: &VTree) -> u32 {
    let mut m = 0;
    for x in v.all_vars() {
        m |= 1 << x;
    }
    m
}

#[derive(Clone, Copy)]
struct Resolved {
    kind: u8,
    x: [usize; 3],
    label: usize,
    flag: bool,
    result: Option<usize>,
}

fn apply(b: &'static CompressionSddBuilder<'static>, r: &Resolved, pool: &[Ptr]) -> Ptr {
    let g = |i: usize| pool[r.x[i]];
    let l = VarLabel::new(r.label as u64);
    match r.kind {
        K_VAR => b.var(l, r.flag),
        K_CONST => {
            if r.flag {
                b.true_ptr()
            } else {
                b.false_ptr()
            }
        }
        K_NEG => b.negate(g(0)),
        K_AND => b.and(g(0), g(1)),
        K_OR => b.or(g(0), g(1)),
        K_XOR => b.xor(g(0), g(1)),
        K_IFF => b.iff(g(0), g(1)),
        K_ITE => b.ite(g(0), g(1), g(2)),
        K_COND => b.condition(g(0), l, r.flag),
        K_EXISTS => b.exists(g(0), l),
        K_COMPOSE => b.compose(g(0), l, g(1)),
        K_CLAUSE => table_clause(r.x[0], r.x[1]).iter().fold(b.false_ptr(), |a, (v, p)| b.or(a, b.var(VarLabel::new(*v as u64), *p))),
        K_COMPILE => {
            let (cnt, nv) = (1 + (r.label & 3), r.label >> 2);
            let clauses: Vec<Vec<rsdd::repr::Literal>> =
                (0..cnt).map(|j| table_clause(r.x[j], nv).iter().map(|(v, p)| rsdd::repr::Literal::new(VarLabel::new(*v as u64), *p)).collect()).collect();
            b.compile_cnf(&rsdd::repr::Cnf::new(&clauses))
        }
        _ => unreachable!(),
    }
}

fn model_of(r: &Resolved, tts: &[TT]) -> TT {
    let g = |i: usize| tts[r.x[i]];
    match r.kind {
        K_VAR => tt::lit(r.label, r.flag),
        K_CONST => {
            if r.flag {
                tt::TRUE
            } else {
                tt::FALSE
            }
        }
        K_NEG => !g(0),
        K_AND => g(0) & g(1),
        K_OR => g(0) | g(1),
        K_XOR => g(0) ^ g(1),
        K_IFF => tt::iff(g(0), g(1)),
        K_ITE => tt::ite(g(0), g(1), g(2)),
        K_COND => tt::restrict(g(0), r.label, r.flag),
        K_CLAUSE => clause_tt(&table_clause(r.x[0], r.x[1])),
        K_COMPILE => {
            let (cnt, nv) = (1 + (r.label & 3), r.label >> 2);
            (0..cnt).fold(tt::TRUE, |a, j| a & clause_tt(&table_clause(r.x[j], nv)))
        }
        K_EXISTS => tt::exists(g(0), r.label),
        K_COMPOSE => tt::compose_doc(g(0), r.label, g(1)),
        _ => unreachable!(),
    }
}

/// C04 for one decision node (compression on)
fn check_node(ctx: &mut Ctx, b: &'static CompressionSddBuilder<'static>, node: Ptr, memo: &mut BTreeMap<usize, TT>) -> R {
    let vm = b.vtree_manager();
    let idx = node.vtree();
    let vt = vm.vtree(idx);
    let (lmask, rmask) = match vt {
        rsdd::util::btree::BTree::Node((), l, r) => (leaves_mask(l), leaves_mask(r)),
        rsdd::util::btree::BTree::Leaf(_) => {
            return ctx.check("C04", "sdd-node-at-leaf-vtree", false, || format!("decision node {} is attached to a leaf of the vtree", show(node)));
        }
    };
    let elems: Vec<SddAnd<'static>> = match node {
        SddPtr::BDD(bn) => {
            // binary node = two elements whose primes are the two literals of its label
            // (also used for non-right-linear vtree nodes: the label need not be the only left variable)
            vec![SddAnd::new(SddPtr::Var(bn.label(), true), bn.high()), SddAnd::new(SddPtr::Var(bn.label(), false), bn.low())]
        }
        SddPtr::Reg(o) => o.iter().copied().collect(),
        _ => unreachable!(),
    };
    let pts: Vec<TT> = elems.iter().map(|e| walk(e.prime(), memo)).collect();
    let sts: Vec<TT> = elems.iter().map(|e| walk(e.sub(), memo)).collect();
    let mut all = tt::FALSE;
    for (i, p) in pts.iter().enumerate() {
        ctx.check("C04", "sdd-prime-false", *p != tt::FALSE, || format!("node {}: prime #{i} ({}) is false", show(node), show(elems[i].prime())))?;
        ctx.check("C04", "sdd-prime-vars-left", tt::support(*p) & !lmask == 0, || {
            format!("node {}: prime #{i} mentions variables {:#b}, left side of its vtree node is {lmask:#b}", show(node), tt::support(*p))
        })?;
        ctx.check("C04", "sdd-sub-vars-right", tt::support(sts[i]) & !rmask == 0, || {
            format!("node {}: sub #{i} mentions variables {:#b}, right side of its vtree node is {rmask:#b}", show(node), tt::support(sts[i]))
        })?;
        for j in 0..i {
            ctx.check("C04", "sdd-primes-overlap", pts[j] & *p == tt::FALSE, || format!("node {}: primes #{j} and #{i} are not mutually exclusive", show(node)))?;
            ctx.check("C04", "sdd-subs-not-distinct", sts[j] != sts[i], || {
                format!("node {}: subs #{j} ({}) and #{i} ({}) denote the same function (not compressed)", show(node), show(elems[j].sub()), show(elems[i].sub()))
            })?;
        }
        all |= *p;
    }
    ctx.check("C04", "sdd-primes-not-exhaustive", all == tt::TRUE, || format!("node {}: the primes do not cover every assignment", show(node)))?;
    // trimming: {(T, s)} and {(p, T), (!p, F)} must not exist
    ctx.check("C04", "sdd-trimmable-single-element", elems.len() >= 2, || format!("node {} has {} element(s)", show(node), elems.len()))?;
    if elems.len() == 2 {
        let tf = (sts[0] == tt::TRUE && sts[1] == tt::FALSE) || (sts[0] == tt::FALSE && sts[1] == tt::TRUE);
        ctx.check("C04", "sdd-trimmable-to-prime", !tf, || format!("node {} has the form {{(p,T),(!p,F)}} and could be trimmed to its prime", show(node)))?;
    }
    Ok(())
}

fn run(plan: &Plan, ctx: &mut Ctx) -> R {
    let nvars = plan.get("nvars").clamp(1, 7) as usize;
    let compress = plan.get("compress") != 0;
    let vt = build_vtree(nvars, plan.get("vt_shape"), plan.get("vt_seed") as u64, plan.get("vt_perm") as u64);
    let mk = |vt: VTree| -> &'static CompressionSddBuilder<'static> {
        let mut b = CompressionSddBuilder::new(vt);
        b.set_compression(compress);
        Box::leak(Box::new(b))
    };
    let b = mk(vt.clone());
    let twin_on = ctx.wants("C16") && plan.get_or("twin", 1) != 0;
    let twin = if twin_on {
        rsdd::verif::set_knobs(Some(16384), None);
        let t = mk(vt);
        let tc = plan.get_or("table_cap", 0);
        rsdd::verif::set_knobs(if tc == 0 { None } else { Some(tc as usize) }, None);
        Some(t)
    } else {
        None
    };
    let mut twin_pool: Vec<Ptr> = Vec::new();
    let (mut sig_a, mut sig_b) = (BTreeMap::new(), BTreeMap::new());

    let query_map = rsdd::repr::create_semantic_hash_map::<{ rsdd::constants::primes::U64_LARGEST }>(nvars);
    let mut pool: Vec<Ptr> = Vec::new();
    let mut tts: Vec<TT> = Vec::new();
    let mut own: Vec<Vec<usize>> = vec![Vec::new(); 4];
    let mut history: Vec<Resolved> = Vec::new();
    let mut canon: BTreeMap<TT, Ptr> = BTreeMap::new();
    // constants and literals are the canonical representatives of their functions
    canon.insert(tt::TRUE, SddPtr::PtrTrue);
    canon.insert(tt::FALSE, SddPtr::PtrFalse);
    for v in 0..nvars {
        canon.insert(tt::lit(v, true), SddPtr::Var(VarLabel::new(v as u64), true));
        canon.insert(tt::lit(v, false), SddPtr::Var(VarLabel::new(v as u64), false));
    }
    let mut audited: BTreeSet<usize> = BTreeSet::new();
    let mut distinct_tts: BTreeSet<TT> = BTreeSet::new();
    let mut nonconst = false;
    let mut lib_pred_disagree = 0u64;
    // without compression diagrams legitimately blow up (element lists multiply and are never merged) and
    // rsdd sorts elements with a structural pointer order that walks the diagram as a *tree*: handles whose
    // unfolded size exceeds the cap are not used as operands again (cost control, not part of any verdict)
    let size_cap = plan.get_or("size_cap", if compress { 200_000 } else { 600 }) as u64;
    let mut tsz_memo: BTreeMap<usize, u64> = BTreeMap::new();
    let mut tsz_of: Vec<u64> = Vec::new();
    let mut big: Vec<bool> = Vec::new();

    let resolve = |arg: i64, caller: usize, own: &Vec<Vec<usize>>, n: usize| -> usize {
        let a = arg.unsigned_abs() as usize;
        let o = &own[caller & 3];
        if a & 1 == 1 && !o.is_empty() {
            o[o.len() - 1 - ((a >> 1) % o.len())]
        } else {
            n - 1 - ((a >> 1) % n)
        }
    };

    for (i, op) in plan.ops.iter().enumerate() {
        ctx.step = i;
        ctx.ops += 1;
        ctx.cur_prop = "C03";
        let caller = (op.c & 3) as usize;
        let n = pool.len();
        let mut kind = op.k;
        if kind == K_QUERY && n == 0 {
            continue;
        }
        if n == 0 && !matches!(kind, K_VAR | K_CONST | K_CLAUSE | K_COMPILE) {
            kind = K_VAR;
        }
        let mut r = Resolved { kind, x: [0; 3], label: 0, flag: op.a[3] & 1 == 1, result: None };
        if !matches!(kind, K_VAR | K_CONST | K_REISSUE | K_AUDIT | K_CLAUSE | K_COMPILE | K_QUERY) {
            // resolve first to see whether an operand is too big
            let nops = match kind { K_NEG | K_COND | K_EXISTS => 1, K_ITE => 3, _ => 2 };
            let szs: Vec<u64> = (0..nops).map(|j| tsz_of[resolve(op.a[j], caller, &own, n)]).collect();
            let product: u64 = szs.iter().fold(1u64, |a, b| a.saturating_mul((*b).max(1)));
            // operations built from several applies work on intermediates as large as the product of their operands
            let work: u64 = match kind {
                K_ITE => szs[0].max(1).saturating_mul(szs[1].max(1)).saturating_mul(szs[0].max(1).saturating_mul(szs[2].max(1))),
                K_XOR | K_IFF | K_COMPOSE => product.saturating_mul(product).saturating_mul(4),
                K_EXISTS => product.saturating_mul(product),
                _ => product,
            };
            if (0..nops).any(|j| big[resolve(op.a[j], caller, &own, n)]) || (!compress && work > 60_000) {
                kind = K_VAR;
                r.kind = K_VAR;
                ctx.count("operand-too-big-degraded-to-var", 1);
            }
        }
        match kind {
            K_VAR => r.label = (op.a[0].unsigned_abs() as usize) % nvars,
            K_CONST => {}
            K_CLAUSE => {
                r.x[0] = op.a[0].unsigned_abs() as usize % 24;
                r.x[1] = nvars;
            }
            K_COMPILE => {
                for j in 0..3 {
                    r.x[j] = op.a[j].unsigned_abs() as usize % 24;
                }
                r.label = (op.a[3].unsigned_abs() as usize % 3) | (nvars << 2);
            }
            K_NEG => r.x[0] = resolve(op.a[0], caller, &own, n),
            K_AND | K_OR | K_XOR | K_IFF | K_EQ => {
                r.x[0] = resolve(op.a[0], caller, &own, n);
                r.x[1] = resolve(op.a[1], caller, &own, n);
            }
            K_ITE => {
                r.x[0] = resolve(op.a[0], caller, &own, n);
                r.x[1] = resolve(op.a[1], caller, &own, n);
                r.x[2] = resolve(op.a[2], caller, &own, n);
            }
            K_COND | K_EXISTS => {
                r.x[0] = resolve(op.a[0], caller, &own, n);
                r.label = (op.a[1].unsigned_abs() as usize) % nvars;
            }
            K_COMPOSE => {
                r.x[0] = resolve(op.a[0], caller, &own, n);
                r.x[1] = resolve(op.a[1], caller, &own, n);
                r.label = (op.a[2].unsigned_abs() as usize) % nvars;
            }
            K_REISSUE => {
                if history.is_empty() {
                    continue;
                }
                let j = (op.a[0].unsigned_abs() as usize) % history.len();
                let h = history[j];
                if h.result.is_none() || big[h.result.unwrap()] {
                    continue;
                }
                let p = apply(b, &h, &pool);
                let prev = pool[h.result.unwrap()];
                ctx.ev(70 + K_REISSUE as u64, &[j as u64, pkey(p).0 as u64, pkey(p).1 as u64]);
                ctx.note(|| format!("[{i}] c{caller} reissue of h{} -> {}", h.result.unwrap(), show(p)));
                let t = walk(p, &mut BTreeMap::new());
                ctx.check("C03", "sdd-result-function", t == tts[h.result.unwrap()], || {
                    format!("re-issued `{}` returned a diagram denoting {}, the definition gives {}", KNAMES[h.kind as usize], tt::show(t), tt::show(tts[h.result.unwrap()]))
                })?;
                if compress {
                    ctx.check("C04", "sdd-reissue-pointer-equal", b.eq(p, prev) && p == prev, || {
                        format!("re-issuing `{}` with the same operands returned {}, earlier result was {}", KNAMES[h.kind as usize], show(p), show(prev))
                    })?;
                }
                if let Some(t) = twin {
                    let was = rsdd::verif::set_faults_enabled(false);
                    let _ = apply(t, &h, &twin_pool);
                    rsdd::verif::set_faults_enabled(was);
                }
                continue;
            }
            K_QUERY => {
                let h = resolve(op.a[0], caller, &own, n);
                if big[h] {
                    continue;
                }
                let a = match op.a[1].unsigned_abs() % 3 {
                    0 => pool[h].cached_semantic_hash(b.vtree_manager(), &query_map).value() as u64,
                    1 => pool[h].semantic_hash(&query_map).value() as u64,
                    _ => pool[h].count_nodes() as u64,
                };
                ctx.ev(70 + K_QUERY as u64, &[h as u64, op.a[1].unsigned_abs() % 3, a]);
                ctx.note(|| format!("[{i}] c{caller} query#{} on h{h} = {a}", op.a[1].unsigned_abs() % 3));
                continue;
            }
            K_AUDIT => {
                let h = resolve(op.a[0], caller, &own, n);
                let t1 = walk(pool[h], &mut BTreeMap::new());
                ctx.ev(70 + K_AUDIT as u64, &[h as u64, tt::lo(t1), tt::hi(t1)]);
                ctx.check("C03", "sdd-denotation-drifted", t1 == tts[h], || {
                    format!("handle h{h} denoted {} when created and {} now", tt::show(tts[h]), tt::show(t1))
                })?;
                continue;
            }
            _ => continue,
        }

        if kind == K_EQ {
            let (pa, pb) = (pool[r.x[0]], pool[r.x[1]]);
            let e = b.eq(pa, pb);
            ctx.ev(70 + K_EQ as u64, &[r.x[0] as u64, r.x[1] as u64, e as u64]);
            ctx.note(|| format!("[{i}] c{caller} eq(h{}, h{}) = {e}", r.x[0], r.x[1]));
            let same = tts[r.x[0]] == tts[r.x[1]];
            if compress {
                ctx.check("C04", "sdd-eq-iff-same-function", e == same, || {
                    format!("eq(h{}, h{}) = {e} but the truth tables are {} and {}", r.x[0], r.x[1], tt::show(tts[r.x[0]]), tt::show(tts[r.x[1]]))
                })?;
            } else {
                // without compression only the sound direction is promised
                ctx.check("C03", "sdd-eq-implies-same-function", !e || same, || {
                    format!("eq(h{}, h{}) is true but the truth tables are {} and {}", r.x[0], r.x[1], tt::show(tts[r.x[0]]), tt::show(tts[r.x[1]]))
                })?;
            }
            history.push(r);
            continue;
        }

        let p = apply(b, &r, &pool);
        let want = model_of(&r, &tts);
        let hidx = pool.len();
        r.result = Some(hidx);
        history.push(r);
        pool.push(p);
        tts.push(want);
        own[caller].push(hidx);
        {
            let ts = tree_size(p, &mut tsz_memo);
            big.push(ts > size_cap);
            tsz_of.push(ts);
            ctx.note(|| format!("      (unfolded size of h{hidx}: {ts})"));
        }
        if !p.is_const() && !p.is_var() {
            nonconst = true;
        }
        ctx.ev(70 + kind as u64, &[hidx as u64, pkey(p).0 as u64, pkey(p).1 as u64, tt::lo(want), tt::hi(want)]);
        ctx.note(|| {
            format!("[{i}] c{caller} h{hidx} = {}({}{}) -> {}  tt={}", KNAMES[kind as usize],
                match kind { K_VAR | K_COND | K_EXISTS | K_COMPOSE => format!("x{} ", r.label), _ => String::new() },
                match kind { K_VAR | K_CONST => format!("{}", r.flag), K_NEG | K_EXISTS => format!("h{}", r.x[0]),
                             K_CLAUSE => format!("{:?}", table_clause(r.x[0], r.x[1])),
                             K_COMPILE => format!("{:?}", (0..1 + (r.label & 3)).map(|j| table_clause(r.x[j], r.label >> 2)).collect::<Vec<_>>()),
                             K_COND => format!("{} h{}", r.flag, r.x[0]),
                             K_ITE => format!("h{} h{} h{}", r.x[0], r.x[1], r.x[2]), _ => format!("h{} h{}", r.x[0], r.x[1]) },
                show(p), tt::show(want))
        });

        // C03
        let mut memo = BTreeMap::new();
        let t_raw = walk(p, &mut memo);
        ctx.check("C03", "sdd-result-function", t_raw == want, || {
            format!("`{}` returned a diagram denoting {}, the definition gives {}", KNAMES[kind as usize], tt::show(t_raw), tt::show(want))
        })?;
        let t_acc = walk_acc(p, &mut BTreeMap::new());
        ctx.check("C03", "sdd-accessor-walk", t_acc == want, || {
            format!("reading `{}`'s result through node_iter() (complement pushed to the subs) gives {}, expected {}", KNAMES[kind as usize], tt::show(t_acc), tt::show(want))
        })?;
        distinct_tts.insert(want);

        // C04 (compressing builder only)
        if compress && ctx.wants("C04") {
            ctx.cur_prop = "C04";
            let mut nodes = BTreeMap::new();
            collect(p, &mut nodes);
            // canonicity over all handles and all reachable sub-diagrams
            let mut to_check: Vec<Ptr> = vec![p];
            for (a, nd) in nodes.iter() {
                if audited.insert(*a) {
                    check_node(ctx, b, *nd, &mut memo)?;
                    to_check.push(*nd);
                }
            }
            for q in to_check {
                let t = walk(q, &mut memo);
                match canon.get(&t) {
                    Some(c) => {
                        let c = *c;
                        ctx.check("C04", "sdd-equal-functions-same-pointer", b.eq(q, c) && q == c, || {
                            format!("{} and {} both denote {} but are different pointers", show(q), show(c), tt::show(t))
                        })?;
                    }
                    None => {
                        canon.insert(t, q);
                        canon.insert(!t, q.neg());
                    }
                }
            }
            // the library's own predicates, as a cross-check only
            if !(p.is_compressed() && p.is_trimmed()) {
                lib_pred_disagree += 1;
            }
        }

        // C16 twin
        if let Some(t) = twin {
            ctx.cur_prop = "C16";
            let was = rsdd::verif::set_faults_enabled(false);
            let q = apply(t, &r, &twin_pool);
            rsdd::verif::set_faults_enabled(was);
            twin_pool.push(q);
            // with compression the diagram is canonical and must be the very same structure; without it a result is
            // only determined up to equivalence (a standard triple shares one ITE-cache entry between e.g. or(f,h)
            // and or(h,f), whose uncompressed structures differ), so only the function can be compared
            let (sb, sa) = if compress { (sig(p, &mut sig_b), sig(q, &mut sig_a)) } else { (0, 0) };
            let tq = walk(q, &mut BTreeMap::new());
            ctx.check("C16", "sdd-twin-same-function", t_raw == tq, || {
                format!("`{}`: with caches forgetting the result denotes {}, the fault-free twin's result denotes {}", KNAMES[kind as usize], tt::show(t_raw), tt::show(tq))
            })?;
            ctx.check("C16", "sdd-twin-same-diagram", sb == sa, || {
                format!("`{}`: builder under test (caches forgetting) returned structure {sb:#x} (tt {}), the fault-free twin returned {sa:#x} (tt {})",
                    KNAMES[kind as usize], tt::show(t_raw), tt::show(walk(q, &mut BTreeMap::new())))
            })?;
        }
    }

    // ---- end of run
    ctx.step = plan.ops.len();
    ctx.cur_prop = "C03";
    for (h, p) in pool.iter().enumerate() {
        let t1 = walk(*p, &mut BTreeMap::new());
        ctx.check("C03", "sdd-denotation-drifted", t1 == tts[h], || {
            format!("at end of run handle h{h} denotes {} but denoted {} when created", tt::show(t1), tt::show(tts[h]))
        })?;
    }
    if ctx.wants("C04") {
        ctx.cur_prop = "C04";
        // every live node is found again by a fresh lookup of its own content
        let mut nodes = BTreeMap::new();
        for p in pool.iter() {
            collect(*p, &mut nodes);
        }
        for (a, nd) in nodes.iter() {
            let back = match *nd {
                SddPtr::BDD(bn) => b.get_or_insert_bdd(BinarySDD::new(bn.label(), bn.low(), bn.high(), bn.index())),
                SddPtr::Reg(o) => b.get_or_insert_sdd(SddOr::new(o.iter().copied().collect(), o.index())),
                _ => unreachable!(),
            };
            ctx.check("C04", "sdd-node-relookup", pkey(back) == pkey(*nd), || {
                format!("looking up the content of live node {} again returned {} (address {a:#x} lost by the unique table)", show(*nd), show(back))
            })?;
        }
        ctx.count("live-nodes", nodes.len() as u64);
    }
    ctx.count("lib-predicates-say-not-canonical", lib_pred_disagree);
    ctx.ev(99, &[pool.len() as u64, distinct_tts.len() as u64]);
    ctx.nontrivial = nonconst;
    ctx.states.extend(distinct_tts.iter().map(|t| mix(tt::lo(*t), tt::hi(*t))));
    Ok(())
}

/// "Counter period" history (as in the `bdd` world): f and g over disjoint variables; f is conditioned a few times,
/// then exactly M conditioning calls work on g only, then f is conditioned / quantified / composed again with other
/// arguments; M sits next to 2^8 / 2^16 minus a small offset (exists and compose condition twice), so that some pair
/// of calls on f is exactly one period of a narrow per-call counter apart.
pub fn period_ops(o: &mut Rng, c: &mut Rng) -> Vec<Op> {
    let mut ops: Vec<Op> = Vec::new();
    // every operation below pushes exactly one handle: pool size == number of operations so far
    let at = |ops: &Vec<Op>, j: usize| -> i64 { (2 * (ops.len() - 1 - j)) as i64 };
    for v in [0i64, 1, 2, 4, 5, 6] {
        ops.push(Op { c: 0, k: K_VAR, a: [v, 0, 0, 1] });
    }
    let bin = |o: &mut Rng| *o.pick(&[K_AND, K_OR, K_XOR, K_IFF]);
    let (k0, k1, k2, k3) = (bin(o), bin(o), bin(o), bin(o));
    let a = [at(&ops, 0), at(&ops, 1), 0, 0];
    ops.push(Op { c: 0, k: k0, a });
    let a = [at(&ops, 6), at(&ops, 2), 0, 0];
    ops.push(Op { c: 0, k: k1, a });
    let a = [at(&ops, 3), at(&ops, 4), 0, 0];
    ops.push(Op { c: 0, k: k2, a });
    let a = [at(&ops, 8), at(&ops, 5), 0, 0];
    ops.push(Op { c: 0, k: k3, a });
    let (f, g) = (7usize, 9usize);
    let (n1, n2) = (1 + o.below(4), 2 + o.below(5));
    for _ in 0..n1 {
        let a = [at(&ops, f), o.below(3) as i64, 0, o.below(2) as i64];
        ops.push(Op { c: 0, k: K_COND, a });
    }
    let period: u64 = if c.below(3) == 0 { 256 } else { 65_536 };
    let m = match c.below(8) {
        0 => period + 1,
        1 => period,
        _ => period - 1 - c.below(2 * (n1 + n2) + 2),
    };
    for _ in 0..m {
        let a = [at(&ops, g), 4 + o.below(3) as i64, 0, o.below(2) as i64];
        ops.push(Op { c: 0, k: K_COND, a });
    }
    for _ in 0..n2 {
        let k = *o.pick(&[K_COND, K_COND, K_EXISTS, K_COMPOSE]);
        let a = if k == K_COMPOSE { [at(&ops, f), at(&ops, 6), o.below(3) as i64, 0] } else { [at(&ops, f), o.below(3) as i64, 0, o.below(2) as i64] };
        ops.push(Op { c: 0, k, a });
    }
    ops
}

impl World for SddWorld {
    fn name(&self) -> &'static str {
        "sdd"
    }
    fn properties(&self) -> &'static [&'static str] {
        &["C03", "C04", "C16"]
    }

    fn generate(&self, run_seed: u64, target: &str, thorough: bool) -> Plan {
        let mut cfg = Cfg::new();
        let mut c = Rng::stream(run_seed, "config");
        let mut o = Rng::stream(run_seed, "ops");
        let mut s = Rng::stream(run_seed, "schedule");
        let mut p = Rng::stream(run_seed, "placement");
        let mut au = Rng::stream(run_seed, "audit");
        cfg.insert("nvars".into(), 1 + c.below(7) as i64);
        cfg.insert("vt_shape".into(), c.below(6) as i64);
        cfg.insert("vt_seed".into(), (c.next() >> 2) as i64);
        cfg.insert("vt_perm".into(), c.below(5040) as i64);
        // C04 speaks about the compressing builder only
        let compress = if target == "C04" { true } else { c.below(3) != 0 };
        cfg.insert("compress".into(), compress as i64);
        let caps = [0i64, 0, 1, 2, 3, 4, 5, 8, 16, 64];
        cfg.insert("table_cap".into(), *c.pick(&caps));
        cfg.insert("place_off".into(), (p.below(4096) * 16) as i64);
        cfg.insert("place_pad_every".into(), p.below(5) as i64);
        cfg.insert("place_pad_bytes".into(), (p.below(8) * 16) as i64);
        let mut rates = [0u16; NUM_SITES];
        use rsdd::verif::Site::*;
        let rate_choices = [4u16, 32, 128];
        for site in [IteCacheForget, SddAppCacheForget, TableGrowNow] {
            if c.below(3) == 0 {
                rates[site as usize] = *c.pick(&rate_choices);
            }
        }
        let ncallers = 1 + c.below(4);
        let mut w = [0u32; NKINDS];
        let base = [8, 1, 5, 10, 9, 6, 6, 7, 6, 5, 4, 4, 4, 3, 3, 2, 3];
        for k in 0..NKINDS {
            w[k] = if c.below(5) == 0 { 0 } else { base[k] * (1 + c.below(3) as u32) };
        }
        w[K_VAR as usize] = w[K_VAR as usize].max(4);
        // one compressing run in 300 is a marathon: thousands of operations on ONE builder
        let marathon = compress && c.below(300) == 0;
        let len = if marathon { 1_500 + o.below(4_500) } else { 8 + o.below(if thorough { 150 } else { 70 }) };
        let mut ops = Vec::new();
        // one run in 500 is a "counter period" history (see `period_ops`)
        let period = c.below(500) == 0;
        if period {
            cfg.insert("nvars".into(), 7);
            cfg.insert("period".into(), 1);
            ops = period_ops(&mut o, &mut c);
            rates = [0u16; NUM_SITES];
        }
        for _ in 0..(if period { 0 } else { len }) {
            let caller = s.below(ncallers) as u8;
            let k = o.weighted(&w) as u8;
            let a = match k {
                K_VAR => [o.below(8) as i64, 0, 0, o.below(2) as i64],
                K_CONST => [0, 0, 0, o.below(2) as i64],
                K_COND | K_EXISTS => [gen_operand(&mut o), o.below(8) as i64, 0, o.below(2) as i64],
                K_COMPOSE => [gen_operand(&mut o), gen_operand(&mut o), o.below(8) as i64, 0],
                K_REISSUE => [o.below(1 << 16) as i64, 0, 0, 0],
                K_AUDIT => [gen_operand(&mut au), 0, 0, 0],
                K_QUERY => [gen_operand(&mut o), o.below(3) as i64, 0, 0],
                K_CLAUSE => [o.below(24) as i64, 0, 0, 0],
                K_COMPILE => [o.below(24) as i64, o.below(24) as i64, o.below(24) as i64, o.below(3) as i64],
                _ => [gen_operand(&mut o), gen_operand(&mut o), gen_operand(&mut o), 0],
            };
            ops.push(Op { c: caller, k, a });
        }
        Plan {
            world: "sdd".into(),
            target: target.into(),
            seed: run_seed,
            cfg,
            ops,
            faults: Faults::Random { seed: mix(run_seed, 82), rates },
        }
    }

    fn execute(&self, plan: &Plan, ctx: &mut Ctx) -> R {
        run(plan, ctx)
    }

    fn simplify_cfg(&self, plan: &Plan) -> Vec<Cfg> {
        let mut v = Vec::new();
        for (k, val) in [("place_off", 0), ("place_pad_every", 0), ("place_pad_bytes", 0), ("vt_perm", 0), ("vt_shape", 0), ("table_cap", 0)] {
            if plan.get_or(k, val) != val {
                let mut c = plan.cfg.clone();
                c.insert(k.into(), val);
                v.push(c);
            }
        }
        let n = plan.get_or("nvars", 1);
        if n > 1 {
            let mut c = plan.cfg.clone();
            c.insert("nvars".into(), n - 1);
            c.insert("vt_perm".into(), 0);
            v.push(c);
        }
        v
    }

    fn render_op(&self, op: &Op) -> String {
        format!("c{}: {} {:?}", op.c & 3, KNAMES.get(op.k as usize).unwrap_or(&"?"), op.a)
    }
}

//! `sddmid` world (C03, C04, C16): the `sdd` histories on 8-20 variables, judged
//! on a sampled sub-cube (7 free variables x 4 base assignments = 512 points),
//! like `bddmid`. condition/exists/compose are only issued on free variables.
//! C04 is checked through its sound-from-samples and structural parts: primes
//! never overlap and always cover the sampled points, primes/subs depend (on the
//! sub-cube) only on variables of their side of the vtree node, no false prime,
//! no duplicate sub pointer, not trimmable, every live node found again,
//! re-issue pointer-equal.

use crate::core::*;
use crate::rng::{mix, Rng};
use crate::tt::{self, TT};
use crate::worlds::bdd::gen_operand;
use crate::worlds::sdd::{self as ws, build_vtree_from_order, collect, pkey, show, sig, tree_size, Ptr};
use rsdd::builder::sdd::{CompressionSddBuilder, SddBuilder};
use rsdd::builder::BottomUpBuilder;
use rsdd::repr::{BinarySDD, DDNNFPtr, SddAnd, SddOr, SddPtr, VarLabel};
use std::collections::{BTreeMap, BTreeSet};

pub struct SddMidWorld;

use crate::worlds::sdd::{K_AND, K_AUDIT, K_COMPOSE, K_COND, K_CONST, K_EQ, K_EXISTS, K_IFF, K_ITE, K_NEG, K_OR, K_REISSUE, K_VAR, K_XOR};
pub const K_IFFCHAIN: u8 = 14;
pub const K_MUX: u8 = 15;
const NKINDS: usize = 16;
const KNAMES: [&str; NKINDS] = ["var", "const", "negate", "and", "or", "xor", "iff", "ite", "condition", "exists", "compose", "eq", "reissue", "audit", "iff-chain", "mux"];
const NB: usize = 4;
type M = [TT; NB];

fn m_map(a: M, f: impl Fn(TT) -> TT) -> M {
    [f(a[0]), f(a[1]), f(a[2]), f(a[3])]
}
fn m_zip(a: M, b: M, f: impl Fn(TT, TT) -> TT) -> M {
    [f(a[0], b[0]), f(a[1], b[1]), f(a[2], b[2]), f(a[3], b[3])]
}
fn m_zip3(a: M, b: M, c: M, f: impl Fn(TT, TT, TT) -> TT) -> M {
    [f(a[0], b[0], c[0]), f(a[1], b[1], c[1]), f(a[2], b[2], c[2]), f(a[3], b[3], c[3])]
}
const M_FALSE: M = [tt::FALSE; NB];
const M_TRUE: M = [tt::TRUE; NB];

struct Cube {
    free: Vec<usize>,
    pos: BTreeMap<usize, usize>,
    /// one bit per *slot*
    base: [u128; NB],
    /// label -> slot for every variable operations may mention (all of them up to 120 variables, a chosen set beyond)
    slot: BTreeMap<usize, u8>,
    /// the labels that have a slot, in vtree leaf order
    used: Vec<usize>,
}
impl Cube {
    fn lit(&self, v: usize, pol: bool) -> M {
        match self.pos.get(&v) {
            Some(j) => [tt::lit(*j, pol); NB],
            None => {
                let mut m = M_FALSE;
                for (b, x) in m.iter_mut().enumerate() {
                    // a label no operation ever mentioned reads as false (and will show up as a wrong function)
                    let bit = self.slot.get(&v).map(|s| (self.base[b] >> s) & 1 == 1).unwrap_or(false);
                    *x = if bit == pol { tt::TRUE } else { tt::FALSE };
                }
                m
            }
        }
    }
    /// bitmask over free positions of the free variables that are leaves of the vtree `vt`
    fn free_under(&self, vt: &rsdd::repr::VTree) -> u32 {
        let mut m = 0;
        for (j, v) in self.free.iter().enumerate() {
            if vt.contains_leaf(&|l: &VarLabel| l.value_usize() == *v) {
                m |= 1 << j;
            }
        }
        m
    }
}

trait NodeIterLen {
    fn node_iter_len(&self) -> usize;
}
impl NodeIterLen for Ptr {
    fn node_iter_len(&self) -> usize {
        match self {
            SddPtr::Reg(o) | SddPtr::Compl(o) => o.iter().count(),
            SddPtr::BDD(_) | SddPtr::ComplBDD(_) => 2,
            _ => 0,
        }
    }
}

/// independent evaluator on the sub-cube (structure only: elements, binary nodes, complement variants)
fn walk(p: Ptr, cube: &Cube, memo: &mut BTreeMap<usize, M>) -> M {
    match p {
        SddPtr::PtrTrue => M_TRUE,
        SddPtr::PtrFalse => M_FALSE,
        SddPtr::Var(l, pol) => cube.lit(l.value_usize(), pol),
        SddPtr::BDD(b) => bdd_m(b, cube, memo),
        SddPtr::ComplBDD(b) => m_map(bdd_m(b, cube, memo), |a| !a),
        SddPtr::Reg(o) => or_m(o, cube, memo),
        SddPtr::Compl(o) => m_map(or_m(o, cube, memo), |a| !a),
    }
}
fn bdd_m(b: &'static BinarySDD<'static>, cube: &Cube, memo: &mut BTreeMap<usize, M>) -> M {
    let a = b as *const BinarySDD as usize;
    if let Some(t) = memo.get(&a) {
        return *t;
    }
    let x = cube.lit(b.label().value_usize(), true);
    let t = m_zip3(x, walk(b.high(), cube, memo), walk(b.low(), cube, memo), tt::ite);
    memo.insert(a, t);
    t
}
fn or_m(o: &'static SddOr<'static>, cube: &Cube, memo: &mut BTreeMap<usize, M>) -> M {
    let a = o as *const SddOr as usize;
    if let Some(t) = memo.get(&a) {
        return *t;
    }
    let mut t = M_FALSE;
    for e in o.iter() {
        let pe = m_zip(walk(e.prime(), cube, memo), walk(e.sub(), cube, memo), |x, y| x & y);
        t = m_zip(t, pe, |x, y| x | y);
    }
    memo.insert(a, t);
    t
}
/// second reader through node_iter() with the complement pushed to the subs
fn walk_acc(p: Ptr, cube: &Cube, memo: &mut BTreeMap<(usize, u8), M>) -> M {
    match p {
        SddPtr::PtrTrue => M_TRUE,
        SddPtr::PtrFalse => M_FALSE,
        SddPtr::Var(l, pol) => cube.lit(l.value_usize(), pol),
        _ => {
            let k = pkey(p);
            if let Some(t) = memo.get(&k) {
                return *t;
            }
            let mut t = M_FALSE;
            for e in p.node_iter() {
                let s = if p.is_neg() { e.sub().neg() } else { e.sub() };
                let pe = m_zip(walk_acc(e.prime(), cube, memo), walk_acc(s, cube, memo), |x, y| x & y);
                t = m_zip(t, pe, |x, y| x | y);
            }
            memo.insert(k, t);
            t
        }
    }
}

#[derive(Clone, Copy)]
struct Resolved {
    kind: u8,
    x: [usize; 3],
    label: usize,
    flag: bool,
    /// iff-chain: (number of pairs, offset) into the used-variable list
    chain: (usize, usize),
    result: Option<usize>,
}

/// the variable pairs of an iff-chain: the i-th used variable of the first half with the i-th of the second half
/// (in vtree leaf order), so that for vtrees splitting near the middle the conjunction is one wide node
fn chain_pairs(used: &[usize], k: usize, off: usize) -> Vec<(usize, usize)> {
    let half = used.len() / 2;
    (0..k.min(half)).map(|i| (used[(off + i) % half], used[half + (off + i) % (used.len() - half)])).collect()
}

/// the pairs of an iff-chain operation in the order they are conjoined: front to back, or (flag) back to front --
/// two routes to the same function
fn chain_route(used: &[usize], r: &Resolved) -> Vec<(usize, usize)> {
    let mut v = chain_pairs(used, r.chain.0, r.chain.1);
    if r.flag {
        v.reverse();
    }
    v
}

fn apply_chain(b: &'static CompressionSddBuilder<'static>, pairs: &[(usize, usize)]) -> Ptr {
    let mut acc = b.true_ptr();
    for (x, y) in pairs {
        let e = b.iff(b.var(VarLabel::new(*x as u64), true), b.var(VarLabel::new(*y as u64), true));
        acc = b.and(acc, e);
    }
    acc
}

/// A multiplexer: selectors are `k` used variables of the first half (vtree leaf order), data inputs are functions
/// over `ny` used variables of the second half drawn from a small pool of tables that contains complement pairs, so
/// that on vtrees splitting near the middle the result (and every combination of two such results over disjoint
/// selectors) is a wide raw element list whose subs coincide and complement each other heavily: compression at scale.
const MUX_POOLS: [usize; 12] = [2, 3, 4, 6, 10, 16, 24, 40, 64, 100, 160, 256];
struct Mux {
    sel: Vec<usize>,
    ys: Vec<usize>,
    /// data table (over the ys) per selector minterm
    data: Vec<u8>,
}
fn mux_of(used: &[usize], r: &Resolved) -> Mux {
    let half = used.len() / 2;
    let k = r.chain.0.clamp(1, half.min(6));
    let ny = r.x[0].clamp(1, 3).min(used.len() - half);
    let sel: Vec<usize> = (0..k).map(|t| used[(r.chain.1 + t) % half]).collect();
    let ys: Vec<usize> = (0..ny).map(|t| used[half + (r.x[2] + t) % (used.len() - half)]).collect();
    let mask: u64 = (1u64 << (1u32 << ny)) - 1;
    let npool = r.x[1].clamp(2, 256);
    let seed = r.label as u64;
    let tables: Vec<u8> = (0..npool).map(|j| {
        let t = (mix(seed, 1000 + (j as u64 & !1)) & mask) as u8;
        if j & 1 == 1 { !t & mask as u8 } else { t }
    }).collect();
    let data: Vec<u8> = (0..(1usize << k)).map(|i| tables[(mix(seed, i as u64) % npool as u64) as usize]).collect();
    Mux { sel, ys, data }
}
fn apply_mux(b: &'static CompressionSddBuilder<'static>, m: &Mux, back_to_front: bool) -> Ptr {
    let lit = |v: usize, pol: bool| b.var(VarLabel::new(v as u64), pol);
    let data_fn = |t: u8| -> Ptr {
        let mut f = b.false_ptr();
        for mt in 0..(1usize << m.ys.len()) {
            if (t >> mt) & 1 == 1 {
                let mut c = b.true_ptr();
                for (j, y) in m.ys.iter().enumerate() {
                    c = b.and(c, lit(*y, (mt >> j) & 1 == 1));
                }
                f = b.or(f, c);
            }
        }
        f
    };
    let n = m.data.len();
    let mut acc = b.false_ptr();
    for step in 0..n {
        let i = if back_to_front { n - 1 - step } else { step };
        let mut c = b.true_ptr();
        for t in 0..m.sel.len() {
            let t = if back_to_front { m.sel.len() - 1 - t } else { t };
            c = b.and(c, lit(m.sel[t], (i >> t) & 1 == 1));
        }
        acc = b.or(acc, b.and(c, data_fn(m.data[i])));
    }
    acc
}
fn model_mux(m: &Mux, cube: &Cube) -> M {
    let mut acc = M_FALSE;
    for (i, t) in m.data.iter().enumerate() {
        let mut c = M_TRUE;
        for (j, v) in m.sel.iter().enumerate() {
            c = m_zip(c, cube.lit(*v, (i >> j) & 1 == 1), |a, b| a & b);
        }
        let mut f = M_FALSE;
        for mt in 0..(1usize << m.ys.len()) {
            if (t >> mt) & 1 == 1 {
                let mut d = M_TRUE;
                for (j, y) in m.ys.iter().enumerate() {
                    d = m_zip(d, cube.lit(*y, (mt >> j) & 1 == 1), |a, b| a & b);
                }
                f = m_zip(f, d, |a, b| a | b);
            }
        }
        acc = m_zip(acc, m_zip(c, f, |a, b| a & b), |a, b| a | b);
    }
    acc
}

fn apply(b: &'static CompressionSddBuilder<'static>, r: &Resolved, pool: &[Ptr]) -> Ptr {
    let g = |i: usize| pool[r.x[i]];
    let l = VarLabel::new(r.label as u64);
    match r.kind {
        K_VAR => b.var(l, r.flag),
        K_CONST => {
            if r.flag {
                b.true_ptr()
            } else {
                b.false_ptr()
            }
        }
        K_NEG => b.negate(g(0)),
        K_AND => b.and(g(0), g(1)),
        K_OR => b.or(g(0), g(1)),
        K_XOR => b.xor(g(0), g(1)),
        K_IFF => b.iff(g(0), g(1)),
        K_ITE => b.ite(g(0), g(1), g(2)),
        K_COND => b.condition(g(0), l, r.flag),
        K_EXISTS => b.exists(g(0), l),
        K_COMPOSE => b.compose(g(0), l, g(1)),
        _ => unreachable!(),
    }
}

fn apply_any(b: &'static CompressionSddBuilder<'static>, r: &Resolved, pool: &[Ptr], used: &[usize]) -> Ptr {
    match r.kind {
        K_IFFCHAIN => apply_chain(b, &chain_route(used, r)),
        K_MUX => apply_mux(b, &mux_of(used, r), r.flag),
        _ => apply(b, r, pool),
    }
}

fn model_of(r: &Resolved, ms: &[M], cube: &Cube) -> M {
    let g = |i: usize| ms[r.x[i]];
    match r.kind {
        K_VAR => cube.lit(r.label, r.flag),
        K_CONST => {
            if r.flag {
                M_TRUE
            } else {
                M_FALSE
            }
        }
        K_NEG => m_map(g(0), |a| !a),
        K_AND => m_zip(g(0), g(1), |a, b| a & b),
        K_OR => m_zip(g(0), g(1), |a, b| a | b),
        K_XOR => m_zip(g(0), g(1), |a, b| a ^ b),
        K_IFF => m_zip(g(0), g(1), tt::iff),
        K_ITE => m_zip3(g(0), g(1), g(2), tt::ite),
        K_COND => {
            let j = cube.pos[&r.label];
            m_map(g(0), |a| tt::restrict(a, j, r.flag))
        }
        K_EXISTS => {
            let j = cube.pos[&r.label];
            m_map(g(0), |a| tt::exists(a, j))
        }
        K_COMPOSE => {
            let j = cube.pos[&r.label];
            m_zip(g(0), g(1), |f, gg| tt::compose_doc(f, j, gg))
        }
        _ => unreachable!(),
    }
}

fn mshow(m: &M) -> String {
    format!("{:08x}..|{:08x}..|{:08x}..|{:08x}..", (m[0] >> 96) as u32, (m[1] >> 96) as u32, (m[2] >> 96) as u32, (m[3] >> 96) as u32)
}

/// the parts of C04 that are decidable structurally or sound from samples
fn check_node(ctx: &mut Ctx, b: &'static CompressionSddBuilder<'static>, node: Ptr, cube: &Cube, memo: &mut BTreeMap<usize, M>, sides: &mut BTreeMap<usize, (u32, u32)>) -> R {
    let vm = b.vtree_manager();
    let vidx = node.vtree();
    let vt = vm.vtree(vidx);
    let (lfree, rfree) = match sides.get(&vidx.value()) {
        Some(x) => *x,
        None => {
            let x = match vt {
                rsdd::util::btree::BTree::Node((), l, r) => (cube.free_under(l), cube.free_under(r)),
                rsdd::util::btree::BTree::Leaf(_) => {
                    return ctx.check("C04", "sdd-node-at-leaf-vtree", false, || format!("decision node {} is attached to a leaf of the vtree", show(node)));
                }
            };
            sides.insert(vidx.value(), x);
            x
        }
    };
    let elems: Vec<SddAnd<'static>> = match node {
        SddPtr::BDD(bn) => vec![SddAnd::new(SddPtr::Var(bn.label(), true), bn.high()), SddAnd::new(SddPtr::Var(bn.label(), false), bn.low())],
        SddPtr::Reg(o) => o.iter().copied().collect(),
        _ => unreachable!(),
    };
    let mut cover = M_FALSE;
    let mut subs_seen: BTreeSet<(usize, u8)> = BTreeSet::new();
    for (i, e) in elems.iter().enumerate() {
        ctx.check("C04", "sdd-prime-false", !e.prime().is_false(), || format!("node {}: prime #{i} is the constant false", show(node)))?;
        let pm = walk(e.prime(), cube, memo);
        let sm = walk(e.sub(), cube, memo);
        for bidx in 0..NB {
            ctx.check("C04", "sdd-prime-vars-left", tt::support(pm[bidx]) & 127 & !lfree == 0, || {
                format!("node {}: prime #{i} depends (on the sampled sub-cube) on free variables {:#b} outside the left side {lfree:#b} of its vtree node", show(node), tt::support(pm[bidx]) & 127)
            })?;
            ctx.check("C04", "sdd-sub-vars-right", tt::support(sm[bidx]) & 127 & !rfree == 0, || {
                format!("node {}: sub #{i} depends (on the sampled sub-cube) on free variables {:#b} outside the right side {rfree:#b} of its vtree node", show(node), tt::support(sm[bidx]) & 127)
            })?;
            ctx.check("C04", "sdd-primes-overlap", cover[bidx] & pm[bidx] == tt::FALSE, || format!("node {}: prime #{i} overlaps an earlier prime on a sampled point", show(node)))?;
        }
        cover = m_zip(cover, pm, |x, y| x | y);
        ctx.check("C04", "sdd-subs-not-distinct", subs_seen.insert(pkey(e.sub())), || format!("node {}: two elements share the sub {}", show(node), show(e.sub())))?;
    }
    ctx.check("C04", "sdd-primes-not-exhaustive", cover == M_TRUE, || format!("node {}: the primes do not cover every sampled point", show(node)))?;
    ctx.check("C04", "sdd-trimmable-single-element", elems.len() >= 2, || format!("node {} has {} element(s)", show(node), elems.len()))?;
    if elems.len() == 2 {
        let tf = (elems[0].sub().is_true() && elems[1].sub().is_false()) || (elems[0].sub().is_false() && elems[1].sub().is_true());
        ctx.check("C04", "sdd-trimmable-to-prime", !tf, || format!("node {} has the form {{(p,T),(!p,F)}}", show(node)))?;
    }
    Ok(())
}

fn run(plan: &Plan, ctx: &mut Ctx) -> R {
    let nvars = plan.get("nvars").clamp(8, 200_000) as usize;
    let compress = plan.get("compress") != 0;
    let mut perm: Vec<usize> = (0..nvars).collect();
    if plan.get_or("linear_order", 0) == 0 {
        Rng::new(plan.get("order_seed") as u64).shuffle(&mut perm);
    }
    let order: Vec<VarLabel> = perm.iter().map(|v| VarLabel::new(*v as u64)).collect();
    let mk = || -> &'static CompressionSddBuilder<'static> {
        let mut b = CompressionSddBuilder::new(build_vtree_from_order(&order, plan.get("vt_shape"), plan.get("vt_seed") as u64));
        b.set_compression(compress);
        Box::leak(Box::new(b))
    };
    let b = mk();
    let twin = if ctx.wants("C16") && plan.get_or("twin", 1) != 0 {
        rsdd::verif::set_knobs(Some(16384), None);
        let t = mk();
        let tc = plan.get_or("table_cap", 0);
        rsdd::verif::set_knobs(if tc == 0 { None } else { Some(tc as usize) }, None);
        Some(t)
    } else {
        None
    };
    let mut cr = Rng::new(plan.get("cube_seed") as u64);
    // which variables operations may mention, listed by leaf rank in the vtree
    let used_ranks: Vec<usize> = if nvars <= 120 {
        (0..nvars).collect()
    } else {
        // tens of thousands of variables: ~40 of them, at the leaf ranks / labels where 15/16-bit positions and
        // labels wrap (vtree in-order positions are 2*rank), plus random ones
        let mut u: Vec<usize> = Vec::new();
        for base in [0usize, 1, 2, 16383, 16384, 32767, 32768, 32769, 65535, 65536] {
            u.push(base);
        }
        for _ in 0..14 {
            u.push(cr.below(nvars as u64) as usize);
        }
        // ranks of a few labels that do not fit 16 bits
        for lbl in [65536usize, 65537, 65538, 65539, 65600, 66000, 67000, 70000, 70050, 131072] {
            if lbl < nvars {
                if let Some(r) = perm.iter().position(|x| *x == lbl) {
                    u.push(r);
                }
            }
        }
        u.retain(|r| *r < nvars);
        u.sort_unstable();
        u.dedup();
        u
    };
    let used: Vec<usize> = used_ranks.iter().map(|r| perm[*r]).collect();
    let slot: BTreeMap<usize, u8> = used.iter().enumerate().map(|(j, v)| (*v, j as u8)).collect();
    let mut vars: Vec<usize> = used.clone();
    cr.shuffle(&mut vars);
    let free: Vec<usize> = vars[..7].to_vec();
    let wide128 = |r: &mut Rng| ((r.next() as u128) << 64) | r.next() as u128;
    let cube = Cube { pos: free.iter().enumerate().map(|(j, v)| (*v, j)).collect(), free, base: [wide128(&mut cr), wide128(&mut cr), wide128(&mut cr), wide128(&mut cr)], slot, used };
    let mut sides: BTreeMap<usize, (u32, u32)> = BTreeMap::new();

    let mut pool: Vec<Ptr> = Vec::new();
    let mut twin_pool: Vec<Ptr> = Vec::new();
    let mut ms: Vec<M> = Vec::new();
    let mut own: Vec<Vec<usize>> = vec![Vec::new(); 4];
    let mut history: Vec<Resolved> = Vec::new();
    let mut audited: BTreeSet<usize> = BTreeSet::new();
    let (mut sig_a, mut sig_b) = (BTreeMap::new(), BTreeMap::new());
    // (the wide-node runs are made of a handful of deliberately large operations: no size caps there)
    let wide_chain = plan.get_or("wide_chain", 0) != 0;
    let mut chain_seen: BTreeMap<Vec<(usize, usize)>, Ptr> = BTreeMap::new();
    let mut mux_seen: BTreeMap<((usize, usize), usize, [usize; 3]), Ptr> = BTreeMap::new();
    let size_cap = if wide_chain { u64::MAX / 4 } else { plan.get_or("size_cap", if compress { 4000 } else { 300 }) as u64 };
    let mut tsz: BTreeMap<usize, u64> = BTreeMap::new();
    let mut big: Vec<bool> = Vec::new();
    let mut tsz_of: Vec<u64> = Vec::new();
    let mut nonconst = false;

    let resolve = |arg: i64, caller: usize, own: &Vec<Vec<usize>>, n: usize| -> usize {
        let a = arg.unsigned_abs() as usize;
        let o = &own[caller & 3];
        if a & 1 == 1 && !o.is_empty() {
            o[o.len() - 1 - ((a >> 1) % o.len())]
        } else {
            n - 1 - ((a >> 1) % n)
        }
    };

    for (i, op) in plan.ops.iter().enumerate() {
        ctx.step = i;
        ctx.ops += 1;
        ctx.cur_prop = "C03";
        let caller = (op.c & 3) as usize;
        let n = pool.len();
        let mut kind = op.k;
        if n == 0 && !matches!(kind, K_VAR | K_CONST | K_IFFCHAIN | K_MUX) {
            kind = K_VAR;
        }
        let mut r = Resolved { kind, x: [0; 3], label: 0, flag: op.a[3] & 1 == 1, chain: (0, 0), result: None };
        if !matches!(kind, K_VAR | K_CONST | K_REISSUE | K_AUDIT | K_IFFCHAIN | K_MUX) {
            let nops = match kind {
                K_NEG | K_COND | K_EXISTS => 1,
                K_ITE => 3,
                _ => 2,
            };
            let product: u64 = (0..nops).map(|j| tsz_of[resolve(op.a[j], caller, &own, n)]).fold(1u64, |a, b| a.saturating_mul(b.max(1)));
            // uncompressed diagrams: operations built from several applies work on intermediate results as large as
            // the product of their operands (ite = two conjunctions and a disjunction of them; xor/iff are ites;
            // exists disjoins two conditionings), and every sort compares shared diagrams as trees
            let sz = |j: usize| tsz_of[resolve(op.a[j], caller, &own, n)].max(1);
            let work: u64 = match kind {
                K_ITE => sz(0).saturating_mul(sz(1)).saturating_mul(sz(0).saturating_mul(sz(2))),
                K_XOR | K_IFF | K_COMPOSE => product.saturating_mul(product).saturating_mul(4),
                K_EXISTS => sz(0).saturating_mul(sz(0)),
                _ => product,
            };
            if (0..nops).any(|j| big[resolve(op.a[j], caller, &own, n)]) || (!compress && work > 40_000) || (product > 250_000 && !wide_chain) {
                kind = K_VAR;
                r.kind = K_VAR;
                ctx.count("operand-too-big-degraded-to-var", 1);
            }
        }
        let free_label = |a: i64| cube.free[a.unsigned_abs() as usize % cube.free.len()];
        match kind {
            K_VAR => r.label = cube.used[(op.a[0].unsigned_abs() as usize) % cube.used.len()],
            K_CONST => {}
            K_IFFCHAIN => {
                // only vtrees that split near the middle keep such a conjunction one wide node; on linear or random vtrees
                // far-apart pairs make it exponential, so a single pair is used there
                let kmax = if matches!(plan.get("vt_shape"), 2 | 3) { 6 } else { 1 };
                // (the second route -- pairs conjoined back to front -- only with compression on: without it the
                // intermediate conjunctions of far-apart pairs are not merged and grow exponentially)
                r.flag = r.flag && compress;
                r.chain = if plan.get_or("wide_chain", 0) != 0 {
                    ((op.a[0].unsigned_abs() as usize).clamp(1, 11), op.a[1].unsigned_abs() as usize)
                } else {
                    (1 + op.a[0].unsigned_abs() as usize % kmax + (kmax > 1) as usize, op.a[1].unsigned_abs() as usize)
                }
            }
            K_MUX => {
                // number of selectors and offset | data seed | (data variables, pool of tables, offset) packed in a[2]
                let wide = plan.get_or("wide_chain", 0) != 0;
                // without compression the disjunction of 2^k terms is never merged: two selectors at most there; on
                // vtrees that do not split near the middle selectors and data are interleaved: three at most
                let kmax = if wide { 6 } else if !compress { 2 } else if matches!(plan.get("vt_shape"), 2 | 3) { 4 } else { 3 };
                r.chain = ((op.a[0].unsigned_abs() as usize & 7).clamp(1, kmax), (op.a[0].unsigned_abs() as usize) >> 3);
                r.label = (op.a[1].unsigned_abs() as usize) & 0xffff_ffff;
                let w = op.a[2].unsigned_abs() as usize;
                r.x = [1 + w % 3, MUX_POOLS[(w / 3) % MUX_POOLS.len()], w / 36];
                r.flag = r.flag && compress;
            }
            K_NEG => r.x[0] = resolve(op.a[0], caller, &own, n),
            K_AND | K_OR | K_XOR | K_IFF | K_EQ => {
                r.x[0] = resolve(op.a[0], caller, &own, n);
                r.x[1] = resolve(op.a[1], caller, &own, n);
            }
            K_ITE => {
                r.x[0] = resolve(op.a[0], caller, &own, n);
                r.x[1] = resolve(op.a[1], caller, &own, n);
                r.x[2] = resolve(op.a[2], caller, &own, n);
            }
            K_COND | K_EXISTS => {
                r.x[0] = resolve(op.a[0], caller, &own, n);
                r.label = free_label(op.a[1]);
            }
            K_COMPOSE => {
                r.x[0] = resolve(op.a[0], caller, &own, n);
                r.x[1] = resolve(op.a[1], caller, &own, n);
                r.label = free_label(op.a[2]);
            }
            K_REISSUE => {
                if history.is_empty() {
                    continue;
                }
                let j = (op.a[0].unsigned_abs() as usize) % history.len();
                let h = history[j];
                if h.result.is_none() || big[h.result.unwrap()] {
                    continue;
                }
                let p = apply_any(b, &h, &pool, &cube.used);
                let prev = pool[h.result.unwrap()];
                ctx.ev(600 + K_REISSUE as u64, &[j as u64, pkey(p).0 as u64, pkey(p).1 as u64]);
                let t = walk(p, &cube, &mut BTreeMap::new());
                ctx.check("C03", "sdd-result-function", t == ms[h.result.unwrap()], || format!("re-issued `{}` reads {} on the sampled sub-cube, expected {}", KNAMES[h.kind as usize], mshow(&t), mshow(&ms[h.result.unwrap()])))?;
                if compress {
                    ctx.check("C04", "sdd-reissue-pointer-equal", b.eq(p, prev) && p == prev, || format!("re-issuing `{}` with the same operands returned {}, earlier result was {}", KNAMES[h.kind as usize], show(p), show(prev)))?;
                }
                if let Some(t) = twin {
                    let was = rsdd::verif::set_faults_enabled(false);
                    let _ = apply_any(t, &h, &twin_pool, &cube.used);
                    rsdd::verif::set_faults_enabled(was);
                }
                continue;
            }
            K_AUDIT => {
                let h = resolve(op.a[0], caller, &own, n);
                let t1 = walk(pool[h], &cube, &mut BTreeMap::new());
                ctx.ev(600 + K_AUDIT as u64, &[h as u64, tt::lo(t1[0]), tt::hi(t1[3])]);
                ctx.check("C03", "sdd-denotation-drifted", t1 == ms[h], || format!("handle h{h} read {} when created and {} now", mshow(&ms[h]), mshow(&t1)))?;
                continue;
            }
            _ => continue,
        }
        if kind == K_EQ {
            let (pa, pb) = (pool[r.x[0]], pool[r.x[1]]);
            let e = b.eq(pa, pb);
            ctx.ev(600 + K_EQ as u64, &[r.x[0] as u64, r.x[1] as u64, e as u64]);
            ctx.check("C03", "sdd-eq-implies-same-function", !e || ms[r.x[0]] == ms[r.x[1]], || {
                format!("eq(h{}, h{}) is true but the diagrams differ on sampled points: {} vs {}", r.x[0], r.x[1], mshow(&ms[r.x[0]]), mshow(&ms[r.x[1]]))
            })?;
            history.push(r);
            continue;
        }
        let p = apply_any(b, &r, &pool, &cube.used);
        let want = if kind == K_MUX {
            model_mux(&mux_of(&cube.used, &r), &cube)
        } else if kind == K_IFFCHAIN {
            chain_route(&cube.used, &r).iter().fold(M_TRUE, |acc, (x, y)| m_zip(acc, m_zip(cube.lit(*x, true), cube.lit(*y, true), tt::iff), |a, c| a & c))
        } else {
            model_of(&r, &ms, &cube)
        };
        let hidx = pool.len();
        r.result = Some(hidx);
        history.push(r);
        pool.push(p);
        ms.push(want);
        own[caller].push(hidx);
        let ts = tree_size(p, &mut tsz);
        big.push(ts > size_cap);
        tsz_of.push(ts);
        if !p.is_const() && !p.is_var() {
            nonconst = true;
        }
        ctx.ev(600 + kind as u64, &[hidx as u64, pkey(p).0 as u64, pkey(p).1 as u64, tt::lo(want[0]), tt::hi(want[1]), tt::lo(want[2]), tt::hi(want[3])]);
        ctx.note(|| format!("[{i}] c{caller} h{hidx} = {}(x{} {} h{} h{} h{}) -> {} ({} elements)  samples={}", KNAMES[kind as usize], r.label, r.flag, r.x[0], r.x[1], r.x[2], show(p), p.node_iter_len(), mshow(&want)));

        let mut memo = BTreeMap::new();
        let got = walk(p, &cube, &mut memo);
        ctx.check("C03", "sdd-result-function", got == want, || {
            format!("`{}` disagrees with its definition on the sampled sub-cube ({nvars} variables, free {:?}): got {}, expected {}", KNAMES[kind as usize], cube.free, mshow(&got), mshow(&want))
        })?;
        let got2 = walk_acc(p, &cube, &mut BTreeMap::new());
        ctx.check("C03", "sdd-accessor-walk", got2 == want, || format!("reading `{}`'s result through node_iter() gives {}, expected {}", KNAMES[kind as usize], mshow(&got2), mshow(&want)))?;

        if compress && kind == K_IFFCHAIN {
            // the same comparator reached along another route (pairs conjoined in the other order) is the same node
            let mut key: Vec<(usize, usize)> = chain_pairs(&cube.used, r.chain.0, r.chain.1);
            key.sort_unstable();
            if let Some(prev) = chain_seen.get(&key) {
                ctx.check("C04", "sdd-equal-functions-same-pointer", *prev == p, || {
                    format!("the conjunction of {} variable equivalences was built twice (pairs {:?}) and is stored as {} and as {}", key.len(), key, show(*prev), show(p))
                })?;
            } else {
                chain_seen.insert(key, p);
            }
        }
        if compress && kind == K_MUX {
            // the same multiplexer assembled in the other order is the same node
            let key = (r.chain, r.label, r.x);
            if let Some(prev) = mux_seen.get(&key) {
                ctx.check("C04", "sdd-equal-functions-same-pointer", *prev == p, || {
                    format!("a multiplexer over {} selectors was assembled twice (in different orders) and is stored as {} and as {}", r.chain.0, show(*prev), show(p))
                })?;
            } else {
                mux_seen.insert(key, p);
            }
        }
        if compress && ctx.wants("C04") {
            ctx.cur_prop = "C04";
            let mut nodes = BTreeMap::new();
            collect(p, &mut nodes);
            for (a, nd) in nodes.iter() {
                if audited.insert(*a) {
                    check_node(ctx, b, *nd, &cube, &mut memo, &mut sides)?;
                }
            }
        }
        if let Some(t) = twin {
            ctx.cur_prop = "C16";
            let was = rsdd::verif::set_faults_enabled(false);
            let q = apply_any(t, &r, &twin_pool, &cube.used);
            rsdd::verif::set_faults_enabled(was);
            twin_pool.push(q);
            // structure is only canonical (hence comparable) with compression; otherwise compare the function on the samples
            let (sb, sa) = if compress { (sig(p, &mut sig_b), sig(q, &mut sig_a)) } else { (0, 0) };
            let tq = walk(q, &cube, &mut BTreeMap::new());
            ctx.check("C16", "sdd-twin-same-function", got == tq, || format!("`{}`: with caches forgetting the result reads {}, the fault-free twin's result reads {}", KNAMES[kind as usize], mshow(&got), mshow(&tq)))?;
            ctx.check("C16", "sdd-twin-same-diagram", sb == sa, || format!("`{}`: builder under test returned structure {sb:#x}, the fault-free twin returned {sa:#x}", KNAMES[kind as usize]))?;
        }
    }
    ctx.step = plan.ops.len();
    ctx.cur_prop = "C03";
    for (h, p) in pool.iter().enumerate() {
        let t1 = walk(*p, &cube, &mut BTreeMap::new());
        ctx.check("C03", "sdd-denotation-drifted", t1 == ms[h], || format!("at end of run handle h{h} reads {} but read {} when created", mshow(&t1), mshow(&ms[h])))?;
    }
    if ctx.wants("C04") {
        ctx.cur_prop = "C04";
        let mut nodes = BTreeMap::new();
        for p in pool.iter() {
            collect(*p, &mut nodes);
        }
        for (a, nd) in nodes.iter() {
            let back = match *nd {
                SddPtr::BDD(bn) => b.get_or_insert_bdd(BinarySDD::new(bn.label(), bn.low(), bn.high(), bn.index())),
                SddPtr::Reg(o) => b.get_or_insert_sdd(SddOr::new(o.iter().copied().collect(), o.index())),
                _ => unreachable!(),
            };
            ctx.check("C04", "sdd-node-relookup", pkey(back) == pkey(*nd), || format!("looking up the content of live node {} again returned {} (address {a:#x} lost by the unique table)", show(*nd), show(back)))?;
        }
        ctx.count("live-nodes", nodes.len() as u64);
    }
    let _ = ws::walk;
    ctx.ev(699, &[pool.len() as u64]);
    ctx.nontrivial = nonconst;
    ctx.states.extend(ms.iter().map(|m| mix(mix(tt::lo(m[0]), tt::hi(m[1])), mix(tt::lo(m[2]), tt::hi(m[3])))));
    Ok(())
}

impl World for SddMidWorld {
    fn name(&self) -> &'static str {
        "sddmid"
    }
    fn properties(&self) -> &'static [&'static str] {
        &["C03", "C04", "C16"]
    }

    fn generate(&self, run_seed: u64, target: &str, thorough: bool) -> Plan {
        let mut cfg = Cfg::new();
        let mut c = Rng::stream(run_seed, "config");
        let mut o = Rng::stream(run_seed, "ops");
        let mut s = Rng::stream(run_seed, "schedule");
        let mut p = Rng::stream(run_seed, "placement");
        // one run in forty: tens of thousands of variables (vtree positions / labels beyond 15 and 16 bits)
        let huge = c.below(150) == 0;
        cfg.insert("nvars".into(), if huge { *c.pick(&[33_000i64, 65_540, 70_100]) } else { 8 + c.below(13) as i64 });
        cfg.insert("linear_order".into(), (c.below(5) == 0) as i64);
        if huge {
            cfg.insert("arena".into(), 2);
        }
        cfg.insert("order_seed".into(), (c.next() >> 2) as i64);
        cfg.insert("cube_seed".into(), (c.next() >> 2) as i64);
        // (huge vtrees must be balanced or random: rsdd's VTreeManager clones every sub-vtree into a lookup table,
        // which is quadratic in memory for linear vtrees)
        cfg.insert("vt_shape".into(), if huge { 3 } else { c.below(6) as i64 });
        cfg.insert("vt_seed".into(), (c.next() >> 2) as i64);
        let compress = if target == "C04" { true } else { c.below(4) != 0 };
        cfg.insert("compress".into(), compress as i64);
        cfg.insert("table_cap".into(), *c.pick(&[0i64, 4, 16, 64, 256, 1024]));
        cfg.insert("place_off".into(), (p.below(4096) * 16) as i64);
        cfg.insert("place_pad_every".into(), p.below(5) as i64);
        cfg.insert("place_pad_bytes".into(), (p.below(8) * 16) as i64);
        let mut rates = [0u16; NUM_SITES];
        use rsdd::verif::Site::*;
        // forgetting a memo makes apply exponential on larger diagrams: keep the rates low here
        for site in [IteCacheForget, SddAppCacheForget, TableGrowNow] {
            if c.below(3) == 0 {
                rates[site as usize] = *c.pick(&[1u16, 3, 8]);
            }
        }
        let ncallers = 1 + c.below(4);
        let mut w = [0u32; NKINDS];
        let base = [10, 1, 5, 10, 9, 6, 6, 7, 6, 5, 4, 3, 4, 3, 2, 2];
        for k in 0..NKINDS {
            w[k] = if c.below(6) == 0 { 0 } else { base[k] * (1 + c.below(3) as u32) };
        }
        w[K_VAR as usize] = w[K_VAR as usize].max(6);
        // one run in 200: "wide nodes": a balanced vtree over 24 variables and comparators of 8-11 variable pairs
        // across its root split, i.e. decision nodes with 256-2048 elements, built along different routes, negated,
        // and combined with each other
        let wide_chain = !huge && c.below(200) == 0;
        if wide_chain {
            cfg.insert("wide_chain".into(), 1);
            cfg.insert("arena".into(), 2);
            cfg.insert("nvars".into(), 24);
            cfg.insert("vt_shape".into(), 3);
            cfg.insert("linear_order".into(), 1);
            cfg.insert("compress".into(), 1);
            let mut ops = Vec::new();
            // k = 8..=11 pairs (one run in eight goes to 11: more than 1024 elements)
            let k = if c.below(8) == 0 { 11 } else { 8 + c.below(2) } as i64;
            let off = o.below(12) as i64;
            // handle 0: EQ_k(off); 1: its negation; 2: the same comparator again (re-built: same pointer expected);
            // 3: a comparator over a shifted window; then combinations of the four
            ops.push(Op { c: 0, k: K_IFFCHAIN, a: [k, off, 0, 0] });
            ops.push(Op { c: 0, k: K_NEG, a: [0, 0, 0, 0] });
            ops.push(Op { c: 0, k: K_IFFCHAIN, a: [k, off, 0, 1] });
            ops.push(Op { c: 0, k: K_IFFCHAIN, a: [k - (o.below(2) as i64), off + 1 + o.below(3) as i64, 0, 0] });
            // (a combination of two 2048-element nodes visits four million element pairs: one of those is enough)
            for _ in 0..(if k >= 10 { 1 } else { 3 + o.below(4) }) {
                let kind = if k >= 10 { *o.pick(&[K_OR, K_AND, K_EQ]) } else { *o.pick(&[K_OR, K_OR, K_AND, K_XOR, K_IFF, K_EQ, K_NEG]) };
                ops.push(Op { c: 0, k: kind, a: [(o.below(5) << 1) as i64, (o.below(5) << 1) as i64, 0, 0] });
            }
            return Plan { world: "sddmid".into(), target: target.into(), seed: run_seed, cfg, ops, faults: Faults::Random { seed: mix(run_seed, 88), rates: [0; NUM_SITES] } };
        }
        // one run in 150: "wide multiplexers": the same vtree; two multiplexers over disjoint selector groups of the
        // left half (32 and 64 selector minterms) whose data inputs are a few functions of three right-half
        // variables and their complements; each assembled in two orders; then combined: raw element lists of 2048
        // entries in which most subs coincide with, or complement, other subs (compression of wide nodes)
        let wide_mux = !huge && c.below(150) == 0;
        if wide_mux {
            cfg.insert("wide_mux".into(), 1);
            cfg.insert("wide_chain".into(), 1);
            cfg.insert("arena".into(), 2);
            cfg.insert("nvars".into(), 24);
            cfg.insert("vt_shape".into(), 3);
            cfg.insert("linear_order".into(), 1);
            cfg.insert("compress".into(), 1);
            let mut ops = Vec::new();
            let (s1, s2) = (o.below(1 << 20) as i64, o.below(1 << 20) as i64);
            // data words: (number of data variables - 1) + 3 * (index of the pool size) + 36 * offset; three data variables,
            // pools of 6 ... 256 tables (half of them complements of the other half)
            let dw = |o: &mut Rng| (2 + 3 * *o.pick(&[3u64, 6, 8, 9, 10, 11, 11, 11]) + 36 * o.below(9)) as i64;
            let (d1, mut d2) = (dw(&mut o), dw(&mut o));
            // (two runs in three: both multiplexers read the same three data variables, so that the subs of a combination
            // are drawn from 256 functions and coincide or complement each other all the time)
            if c.below(3) != 0 {
                d2 = d2 % 36 + 36 * (d1 / 36);
            }
            let (k1, k2) = if c.below(4) == 0 { (4i64, 5i64) } else { (5, 6) };
            // selector word: k + 8 * offset
            ops.push(Op { c: 0, k: K_MUX, a: [k1, s1, d1, 0] });
            ops.push(Op { c: 0, k: K_MUX, a: [k2 + 8 * k1, s2, d2, 0] });
            ops.push(Op { c: 0, k: K_MUX, a: [k1, s1, d1, 1] });
            ops.push(Op { c: 0, k: K_MUX, a: [k2 + 8 * k1, s2, d2, 1] });
            // handles so far: 0 = A, 1 = B, 2 = A again, 3 = B again; `at(i, n)` addresses handle i when n handles exist
            let at = |i: u64, n: u64| ((n - 1 - i) << 1) as i64;
            let mut n = 4u64;
            let z = o.below(2);
            ops.push(Op { c: 0, k: K_NEG, a: [at(z, n), 0, 0, 0] });
            n += 1;
            // the two multiplexers combined (raw lists of 2^k1 * 2^k2 elements), in both argument orders and with a
            // negated operand; then a few free combinations of everything built so far
            for (kind, x, y) in [(*o.pick(&[K_AND, K_OR, K_XOR]), 0u64, 1u64), (*o.pick(&[K_AND, K_OR, K_IFF]), 1, 0), (*o.pick(&[K_AND, K_OR]), 4, 1 - z)] {
                ops.push(Op { c: 0, k: kind, a: [at(x, n), at(y, n), 0, 0] });
                n += 1;
            }
            for _ in 0..(2 + o.below(4)) {
                let kind = *o.pick(&[K_OR, K_AND, K_AND, K_XOR, K_IFF, K_ITE, K_EQ, K_NEG, K_REISSUE]);
                let a = if kind == K_REISSUE { [o.below(1 << 16) as i64, 0, 0, 0] } else { [at(o.below(n), n), at(o.below(n), n), at(o.below(n), n), 0] };
                ops.push(Op { c: 0, k: kind, a });
                if !matches!(kind, K_EQ | K_REISSUE) {
                    n += 1;
                }
            }
            return Plan { world: "sddmid".into(), target: target.into(), seed: run_seed, cfg, ops, faults: Faults::Random { seed: mix(run_seed, 88), rates: [0; NUM_SITES] } };
        }
        let len = 12 + o.below(if thorough { 120 } else { 60 });
        let mut ops = Vec::new();
        for _ in 0..(4 + c.below(6)) {
            ops.push(Op { c: s.below(ncallers) as u8, k: K_VAR, a: [o.below(128) as i64, 0, 0, o.below(2) as i64] });
        }
        for _ in 0..len {
            let caller = s.below(ncallers) as u8;
            let k = o.weighted(&w) as u8;
            let a = match k {
                K_VAR => [o.below(128) as i64, 0, 0, o.below(2) as i64],
                K_CONST => [0, 0, 0, o.below(2) as i64],
                K_COND | K_EXISTS => [gen_operand(&mut o), o.below(8) as i64, 0, o.below(2) as i64],
                K_COMPOSE => [gen_operand(&mut o), gen_operand(&mut o), o.below(8) as i64, 0],
                K_REISSUE => [o.below(1 << 16) as i64, 0, 0, 0],
                K_IFFCHAIN => [o.below(6) as i64, o.below(64) as i64, 0, o.below(2) as i64],
                K_MUX => [o.below(512) as i64, o.below(8) as i64, o.below(36 * 12) as i64, o.below(2) as i64],
                _ => [gen_operand(&mut o), gen_operand(&mut o), gen_operand(&mut o), 0],
            };
            ops.push(Op { c: caller, k, a });
        }
        Plan {
            world: "sddmid".into(),
            target: target.into(),
            seed: run_seed,
            cfg,
            ops,
            faults: Faults::Random { seed: mix(run_seed, 88), rates },
        }
    }

    fn execute(&self, plan: &Plan, ctx: &mut Ctx) -> R {
        run(plan, ctx)
    }

    fn simplify_cfg(&self, plan: &Plan) -> Vec<Cfg> {
        let mut v = Vec::new();
        for (k, val) in [("place_off", 0), ("place_pad_every", 0), ("place_pad_bytes", 0), ("vt_shape", 0), ("table_cap", 0)] {
            if plan.get_or(k, val) != val {
                let mut c = plan.cfg.clone();
                c.insert(k.into(), val);
                v.push(c);
            }
        }
        let n = plan.get_or("nvars", 8);
        if n > 8 {
            let mut c = plan.cfg.clone();
            c.insert("nvars".into(), (n - 3).max(8));
            v.push(c);
        }
        v
    }

    fn render_op(&self, op: &Op) -> String {
        format!("c{}: {} {:?}", op.c & 3, KNAMES.get(op.k as usize).unwrap_or(&"?"), op.a)
    }
}

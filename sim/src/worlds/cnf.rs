//! `cnf` world (C15).
//!
//! History part: `CnfHasher` under push/decide/pop/hash(m) interleavings with
//! the caller's partial model kept in step, and `PartialModel` / `VarSet`
//! under set/unset/insert/remove/union histories, against explicit sets.
//! Input part (plain seeded generation, said as such): `Cnf::new`, `eval`,
//! `is_sat_partial`, chains of `condition`, brute-force `wmc`.

use crate::core::*;
use crate::rng::{mix, Rng};
use crate::worlds::sat::{clause_of, clauses_of_plan, gen_cnf_ops, is_taut, K_CLAUSE, K_CLAUSE_EXT, MAXV};
use rsdd::repr::{Cnf, Literal, PartialModel, VarLabel, VarSet, WmcParams};
use rsdd::util::semirings::{FiniteField, RealSemiring};
use std::collections::{BTreeMap, BTreeSet, HashMap};

pub struct CnfWorld;

const K_PUSH: u8 = 1;
const K_DECIDE: u8 = 2;
const K_POP: u8 = 3;
const K_HASH: u8 = 4;
const K_HASH_EXTRA: u8 = 5;
const K_MSET: u8 = 6;
const K_MUNSET: u8 = 7;
const K_VS_INSERT: u8 = 8;
const K_VS_REMOVE: u8 = 9;
const K_VS_UNION: u8 = 10;
const K_CONDITION: u8 = 11;
const K_MCHECK: u8 = 12;

const P_TEST: u128 = 1_000_000_007;

fn lit(v: usize, p: bool) -> Literal {
    Literal::new(VarLabel::new(v as u64), p)
}

/// residual with clause identity: (clause index, remaining unassigned literals)
fn residual(clauses: &[Vec<(usize, bool)>], m: &[Option<bool>]) -> (Vec<(usize, Vec<(usize, bool)>)>, bool) {
    let mut out = Vec::new();
    let mut falsified = false;
    for (ci, c) in clauses.iter().enumerate() {
        if c.is_empty() {
            falsified = true;
        }
        if c.iter().any(|(v, p)| m[*v] == Some(*p)) {
            continue;
        }
        let rem: Vec<(usize, bool)> = c.iter().filter(|(v, _)| m[*v].is_none()).copied().collect();
        if rem.is_empty() {
            falsified = true;
        }
        if c.len() > 1 {
            out.push((ci, rem));
        }
    }
    (out, falsified)
}

/// "Sweep" scenario (one run in 1500): a formula with thousands of literal occurrences in which every variable
/// occurs exactly once, so that for every single occurrence `o` of every clause `c` there is an assignment that
/// falsifies nothing, satisfies every other clause and leaves exactly `o` unassigned in `c`: its residual is
/// `{(c, [o])}`, tiny, so "equal hashes only for equal residuals" is decidable however large the formula is. The
/// sweep asks for the hash of every such state (directly, and after telling the hasher about part of the assignment
/// through push/decide), demands pairwise different answers, equal answers for equal residuals reached through
/// different assignments, and does the same for a sample of two-occurrence residuals.
fn run_sweep(plan: &Plan, ctx: &mut Ctx) -> R {
    ctx.cur_prop = "C15";
    let mut r = Rng::new(plan.get("sweep_seed") as u64);
    let n_occ = plan.get("sweep_occ").clamp(8, 20_000) as usize;
    let mut labels: Vec<usize> = (0..n_occ).collect();
    if plan.get_or("sweep_shuffle", 1) != 0 {
        r.shuffle(&mut labels);
    }
    let mut clauses_in: Vec<Vec<(usize, bool)>> = Vec::new();
    let mut at = 0;
    while at < n_occ {
        // mostly binary and ternary clauses, a few unit clauses (which the hasher must ignore) and wider ones
        let sz = match r.below(24) {
            0 => 1,
            1..=9 => 2,
            10..=19 => 3,
            20..=22 => 4,
            _ => 5 + r.below(8) as usize,
        }
        .min(n_occ - at);
        clauses_in.push(labels[at..at + sz].iter().map(|v| (*v, r.bool())).collect());
        at += sz;
    }
    // one sweep in three: the number of clauses is cut down to a multiple of 64 (word boundaries of per-clause bit sets);
    // the variables of the dropped clauses simply do not occur
    let mut n_occ = n_occ;
    if plan.get_or("sweep_round", 0) != 0 && clauses_in.len() > 64 {
        clauses_in.truncate(clauses_in.len() / 64 * 64);
        n_occ = clauses_in.iter().flat_map(|c| c.iter().map(|(v, _)| v + 1)).max().unwrap_or(0);
    }
    let lits: Vec<Vec<Literal>> = clauses_in.iter().map(|c| c.iter().map(|(v, p)| lit(*v, *p)).collect()).collect();
    let cnf = Cnf::new(&lits);
    let nv = cnf.num_vars();
    ctx.ev(50, &[nv as u64, clauses_in.len() as u64]);
    ctx.check("C15", "cnf-num-vars", nv == n_occ, || format!("Cnf::new reports {nv} variables, the clause list mentions labels below {n_occ}"))?;
    ctx.check("C15", "cnf-clause-count", cnf.clauses().len() == clauses_in.len(), || format!("Cnf::new kept {} of {} clauses", cnf.clauses().len(), clauses_in.len()))?;
    let clauses: Vec<Vec<(usize, bool)>> = cnf.clauses().iter().map(|c| c.iter().map(|l| (l.label().value_usize(), l.polarity())).collect()).collect();
    for (a, b) in clauses.iter().zip(clauses_in.iter()) {
        let (sa, sb): (BTreeSet<_>, BTreeSet<_>) = (a.iter().collect(), b.iter().collect());
        ctx.check("C15", "cnf-normalisation-keeps-literal-set", sa == sb, || format!("clause {:?} was normalised to {:?}", b, a))?;
    }
    let mut hasher = cnf.hasher().clone();
    // base state: every clause satisfied through its first literal, everything else unassigned
    let mut pm = PartialModel::new(nv);
    for c in clauses.iter() {
        pm.set(VarLabel::new(c[0].0 as u64), c[0].1);
    }
    let mut seen: BTreeMap<String, (usize, usize)> = BTreeMap::new();
    let mut single: Vec<Vec<String>> = vec![Vec::new(); clauses.len()];
    let mut n_states = 0u64;
    // every `stride`-th clause only for formulas beyond 6000 occurrences (cost is quadratic)
    for (ci, c) in clauses.iter().enumerate() {
        if c.len() < 2 {
            continue;
        }
        ctx.step = ci;
        for oi in 0..c.len() {
            // clause ci: everything false except occurrence oi, which stays unassigned
            for (j, (v, p)) in c.iter().enumerate() {
                if j == oi {
                    pm.unset(VarLabel::new(*v as u64));
                } else {
                    pm.set(VarLabel::new(*v as u64), !*p);
                }
            }
            // one state in four: the hasher is told about the satisfying literals of a few other clauses first
            let told = r.below(4) == 0;
            if told {
                hasher.push();
                for _ in 0..(1 + r.below(6)) {
                    let k = r.below(clauses.len() as u64) as usize;
                    if k != ci {
                        hasher.decide(lit(clauses[k][0].0, clauses[k][0].1));
                    }
                }
            }
            let hs = format!("{:?}", hasher.hash(&pm));
            if told {
                hasher.pop();
            }
            ctx.ops += 1;
            n_states += 1;
            ctx.ev(57, &[ci as u64, oi as u64, crate::rng::str_hash(&hs)]);
            let prev = seen.insert(hs.clone(), (ci, oi));
            ctx.check("C15", "hasher-equal-hash-equal-residual", prev.is_none(), || {
                let (pc, po) = prev.unwrap();
                format!(
                    "hash {hs} was produced for the residual {{clause {pc}: [{:?}]}} and for the residual {{clause {ci}: [{:?}]}} ({} literal occurrences in the formula)",
                    clauses[pc][po], c[oi], n_occ
                )
            })?;
            single[ci].push(hs);
        }
        // back to the base state; the same residuals again, reached through another satisfying literal of the
        // neighbouring clauses, must hash as before
        for (j, (v, p)) in c.iter().enumerate() {
            if j == 0 {
                pm.set(VarLabel::new(*v as u64), *p);
            } else {
                pm.unset(VarLabel::new(*v as u64));
            }
        }
    }
    // equal residual => equal hash: other clauses satisfied through their *last* literal this time (sampled clauses)
    let mut pm2 = PartialModel::new(nv);
    for c in clauses.iter() {
        let l = c[c.len() - 1];
        pm2.set(VarLabel::new(l.0 as u64), l.1);
    }
    for _ in 0..clauses.len().min(400) {
        let ci = r.below(clauses.len() as u64) as usize;
        let c = &clauses[ci];
        if c.len() < 2 {
            continue;
        }
        let oi = r.below(c.len() as u64) as usize;
        for (j, (v, p)) in c.iter().enumerate() {
            if j == oi {
                pm2.unset(VarLabel::new(*v as u64));
            } else {
                pm2.set(VarLabel::new(*v as u64), !*p);
            }
        }
        let hs = format!("{:?}", hasher.hash(&pm2));
        ctx.ops += 1;
        ctx.check("C15", "hasher-equal-residual-equal-hash", hs == single[ci][oi], || {
            format!("the residual {{clause {ci}: [{:?}]}} hashed to {} and, with the other clauses satisfied through other literals, to {hs}", c[oi], single[ci][oi])
        })?;
        for (j, (v, p)) in c.iter().enumerate() {
            if j == c.len() - 1 {
                pm2.set(VarLabel::new(*v as u64), *p);
            } else {
                pm2.unset(VarLabel::new(*v as u64));
            }
        }
    }
    ctx.count("sweep-single-occurrence-states", n_states);
    ctx.nontrivial = true;
    ctx.states.push(mix(n_occ as u64, clauses.len() as u64));
    Ok(())
}

impl World for CnfWorld {
    fn name(&self) -> &'static str {
        "cnf"
    }
    fn properties(&self) -> &'static [&'static str] {
        &["C15"]
    }

    fn generate(&self, run_seed: u64, target: &str, thorough: bool) -> Plan {
        let mut cfg = Cfg::new();
        let mut c = Rng::stream(run_seed, "config");
        let mut o = Rng::stream(run_seed, "ops");
        let mut s = Rng::stream(run_seed, "schedule");
        // one run in 1500: the sweep scenario (thousands of literal occurrences, every variable once); sizes next to
        // multiples of 4096 and 1024 are favoured
        if c.below(1500) == 0 {
            let occ = match c.below(6) {
                0 => 300 + c.below(900),
                1 => 4080 + c.below(60),
                2 => 8170 + c.below(60),
                3 => 1000 + c.below(1100),
                4 => 4200 + c.below(2000),
                _ => 2000 + c.below(7000),
            };
            cfg.insert("sweep_occ".into(), occ as i64);
            cfg.insert("sweep_seed".into(), (c.next() >> 2) as i64);
            cfg.insert("sweep_shuffle".into(), (c.below(3) != 0) as i64);
            cfg.insert("sweep_round".into(), (c.below(3) == 0) as i64);
            cfg.insert("arena".into(), 2);
            return Plan { world: "cnf".into(), target: target.into(), seed: run_seed, cfg, ops: Vec::new(), faults: Faults::Random { seed: mix(run_seed, 81), rates: [0; NUM_SITES] } };
        }
        let wide = c.below(4) == 0;
        // one run in six is a large formula (11-60 variables, up to 90 clauses): eval/condition are then judged on
        // 64 sampled assignments and the brute-force count is skipped; the hasher checks need no enumeration
        let big = c.below(6) == 0;
        let nv = if big { 11 + c.below(50) } else if wide { 5 + c.below(6) } else { 1 + c.below(6) };
        cfg.insert("nv".into(), nv as i64);
        cfg.insert("big".into(), big as i64);
        cfg.insert("wseed".into(), (c.next() >> 2) as i64);
        // the empty formula must be reachable often enough
        // one large formula in eight has one very wide clause (27-45 literals of distinct variables) and a few short ones
        let wide_clause = big && nv >= 30 && c.below(8) == 0;
        let mut ops = if c.below(12) == 0 {
            Vec::new()
        } else if wide_clause {
            let mut v = Vec::new();
            let mut vars: Vec<u64> = (0..nv).collect();
            o.shuffle(&mut vars);
            let k = 27 + o.below((nv - 26).min(19)) as usize;
            let lits: Vec<i64> = vars[..k].iter().map(|x| if o.bool() { *x as i64 + 1 } else { -(*x as i64 + 1) }).collect();
            for (j, ch) in lits.chunks(4).enumerate() {
                let mut a = [0i64; 4];
                a[..ch.len()].copy_from_slice(ch);
                v.push(Op { c: 0, k: if j == 0 { K_CLAUSE } else { K_CLAUSE_EXT }, a });
            }
            for _ in 0..(1 + o.below(4)) {
                let mut a = [0i64; 4];
                for slot in a.iter_mut().take(2 + o.below(2) as usize) {
                    let x = o.below(nv) as i64 + 1;
                    *slot = if o.bool() { x } else { -x };
                }
                v.push(Op { c: 0, k: K_CLAUSE, a });
            }
            v
        } else if big {
            let mut v = Vec::new();
            // (one large formula in five has a clause count at or next to a multiple of 32)
            let n_clauses = if c.below(5) == 0 { *c.pick(&[31u64, 32, 33, 63, 64, 65]) } else { 5 + c.below(86) };
            for _ in 0..n_clauses {
                let mut a = [0i64; 4];
                let sz = match o.below(20) { 0 => 1, 1..=5 => 2, 6..=16 => 3, _ => 4 };
                for slot in a.iter_mut().take(sz) {
                    let x = o.below(nv) as i64 + 1;
                    *slot = if o.bool() { x } else { -x };
                }
                v.push(Op { c: 0, k: K_CLAUSE, a });
                if o.below(10) == 0 {
                    v.push(Op { c: 0, k: K_CLAUSE_EXT, a });
                }
            }
            v
        } else {
            gen_cnf_ops(&mut c, &mut o, nv, if wide { 14 } else { 8 })
        };
        let ncallers = 1 + c.below(3);
        let len = 4 + o.below(if thorough { 120 } else { 50 });
        let w = [14u32, 30, 14, 16, 6, 8, 4, 6, 3, 3, 3, 4];
        for _ in 0..len {
            let k = 1 + o.weighted(&w) as u8;
            ops.push(Op {
                c: s.below(ncallers) as u8,
                k,
                a: [o.below(64) as i64, o.below(2) as i64, (o.next() >> 4) as i64, (o.next() >> 4) as i64],
            });
        }
        Plan {
            world: "cnf".into(),
            target: target.into(),
            seed: run_seed,
            cfg,
            ops,
            faults: Faults::Random { seed: mix(run_seed, 81), rates: [0; NUM_SITES] },
        }
    }

    fn execute(&self, plan: &Plan, ctx: &mut Ctx) -> R {
        if plan.get_or("sweep_occ", 0) != 0 {
            return run_sweep(plan, ctx);
        }
        ctx.cur_prop = "C15";
        let big = plan.get_or("big", 0) != 0;
        let clauses_in: Vec<Vec<(usize, bool)>> = clauses_of_plan(&plan.ops, if big { 64 } else { MAXV });
        let lits: Vec<Vec<Literal>> = clauses_in.iter().map(|c| c.iter().map(|(v, p)| lit(*v, *p)).collect()).collect();
        let cnf = Cnf::new(&lits);
        let nv = cnf.num_vars();
        ctx.ev(50, &[nv as u64, clauses_in.len() as u64]);
        ctx.note(|| format!("cnf: {:?}", clauses_in));

        // ---------------- input part: construction
        let want_nv = clauses_in.iter().flat_map(|c| c.iter().map(|(v, _)| v + 1)).max().unwrap_or(0);
        ctx.check("C15", "cnf-num-vars", nv == want_nv, || format!("Cnf::new reports {nv} variables, the clause list mentions labels below {want_nv}"))?;
        ctx.check("C15", "cnf-clause-count", cnf.clauses().len() == clauses_in.len(), || {
            format!("Cnf::new kept {} of {} clauses", cnf.clauses().len(), clauses_in.len())
        })?;
        let clauses: Vec<Vec<(usize, bool)>> = cnf.clauses().iter().map(|c| c.iter().map(|l| (l.label().value_usize(), l.polarity())).collect()).collect();
        for (a, b) in clauses.iter().zip(clauses_in.iter()) {
            let sa: BTreeSet<_> = a.iter().collect();
            let sb: BTreeSet<_> = b.iter().collect();
            ctx.check("C15", "cnf-normalisation-keeps-literal-set", sa == sb, || format!("clause {:?} was normalised to {:?}", b, a))?;
        }
        // eval on every assignment
        let eval_ref = |cl: &[Vec<(usize, bool)>], m: u64| cl.iter().all(|c| c.iter().any(|(v, p)| ((m >> v) & 1 == 1) == *p));
        // the assignments on which eval/condition are judged: all of them for small formulas, 64 sampled ones otherwise
        let small = nv <= MAXV;
        let points: Vec<u64> = if small {
            (0..(1u64 << nv)).collect()
        } else {
            let mut pr = Rng::new(plan.get("wseed") as u64 ^ 0x5eed);
            (0..64).map(|_| pr.next() & ((1u64 << nv) - 1)).collect()
        };
        let mut models = Vec::new();
        for m in points.iter().copied() {
            let a: Vec<bool> = (0..nv).map(|v| (m >> v) & 1 == 1).collect();
            let got = cnf.eval(&a);
            let want = eval_ref(&clauses_in, m);
            ctx.check("C15", "cnf-eval", got == want, || format!("eval({:?}) = {got}, definition gives {want} for {:?}", a, clauses_in))?;
            if want {
                models.push(m);
            }
        }
        // brute-force weighted count, exact weights (small formulas only: it enumerates all assignments)
        if small {
            let mut wr = Rng::new(plan.get("wseed") as u64);
            let mut wmap_r = HashMap::new();
            let mut wmap_f = HashMap::new();
            let mut wts = Vec::new();
            for v in 0..nv {
                // small dyadic rationals: exact in f64
                let (l, h) = (wr.below(9) as f64 / 8.0, wr.below(9) as f64 / 8.0);
                let (lf, hf) = (wr.below(1000) as u128, wr.below(1000) as u128);
                wmap_r.insert(VarLabel::new(v as u64), (RealSemiring(l), RealSemiring(h)));
                wmap_f.insert(VarLabel::new(v as u64), (FiniteField::<P_TEST>::new(lf), FiniteField::<P_TEST>::new(hf)));
                wts.push((l, h, lf, hf));
            }
            let got_r = cnf.wmc(&WmcParams::new(wmap_r)).0;
            let got_f = cnf.wmc(&WmcParams::new(wmap_f)).value();
            let mut want_r = 0.0f64;
            let mut want_f: u128 = 0;
            for m in models.iter() {
                let mut pr = 1.0f64;
                let mut pf: u128 = 1;
                for (v, w) in wts.iter().enumerate() {
                    if (m >> v) & 1 == 1 {
                        pr *= w.1;
                        pf = pf * w.3 % P_TEST;
                    } else {
                        pr *= w.0;
                        pf = pf * w.2 % P_TEST;
                    }
                }
                want_r += pr;
                want_f = (want_f + pf) % P_TEST;
            }
            ctx.check("C15", "cnf-wmc-real", got_r == want_r, || {
                format!("Cnf::wmc (real) = {got_r}, the sum over the {} satisfying assignments is {want_r} (clauses {:?})", models.len(), clauses_in)
            })?;
            ctx.check("C15", "cnf-wmc-finite-field", got_f == want_f, || {
                format!("Cnf::wmc (mod {P_TEST}) = {got_f}, the sum over the {} satisfying assignments is {want_f} (clauses {:?})", models.len(), clauses_in)
            })?;
        }

        // ---------------- history part
        // the library numbers literal occurrences (of all clauses, units included) with consecutive primes
        let n_occ: usize = clauses.iter().filter(|c| c.len() > 1).map(|c| c.len()).sum();
        let n_occ_all: usize = clauses.iter().map(|c| c.len()).sum();
        let product_fits = {
            // worst case: the non-unit clauses carry the largest of the first n_occ_all primes
            let primes = [2u128, 3, 5, 7, 11, 13, 17, 19, 23, 29, 31, 37, 41, 43, 47, 53, 59, 61, 67, 71, 73, 79, 83, 89, 97, 101, 103, 107, 109, 113, 127, 131];
            if n_occ_all > primes.len() {
                false
            } else {
                let mut prod: Option<u128> = Some(1);
                for p in primes.iter().take(n_occ_all).rev().take(n_occ) {
                    prod = prod.and_then(|x| x.checked_mul(*p));
                }
                prod.is_some()
            }
        };
        // the first 4000 primes (harness-side sieve, computed once per process outside any run's arena), for the
        // per-residual bound below
        static FIRST_PRIMES: std::sync::OnceLock<Vec<u128>> = std::sync::OnceLock::new();
        let first_primes: &Vec<u128> = FIRST_PRIMES.get_or_init(|| {
            crate::alloc::with_system(|| {
                let mut v: Vec<u128> = Vec::with_capacity(4000);
                let mut x = 2u128;
                while v.len() < 4000 {
                    if v.iter().take_while(|p| **p * **p <= x).all(|p| x % *p != 0) {
                        v.push(x);
                    }
                    x += 1;
                }
                v
            })
        });
        let mut hasher = cnf.hasher().clone();
        let mut model: Vec<Option<bool>> = vec![None; nv];
        let mut mstack: Vec<Vec<Option<bool>>> = Vec::new();
        let mut by_residual: BTreeMap<Vec<(usize, Vec<(usize, bool)>)>, String> = BTreeMap::new();
        let mut by_hash: BTreeMap<String, Vec<(usize, Vec<(usize, bool)>)>> = BTreeMap::new();
        // PartialModel / VarSet under test and their references
        let mut pm = PartialModel::new(nv);
        let mut pm_ref: Vec<Option<bool>> = vec![None; nv];
        // a wide partial model (150 variables) under the same history
        const WIDE: usize = 150;
        let mut pmw = PartialModel::new(WIDE);
        let mut pmw_ref: Vec<Option<bool>> = vec![None; WIDE];
        let mut vs = [VarSet::new(), VarSet::new_with_num_vars(nv)];
        let mut vs_ref: [BTreeSet<usize>; 2] = [BTreeSet::new(), BTreeSet::new()];
        let mut cur_cnf = cnf.clone();
        let mut cur_ref: Vec<Vec<(usize, bool)>> = clauses_in.clone();
        let mut n_hash = 0u64;

        for (i, op) in plan.ops.iter().enumerate() {
            ctx.step = i;
            if op.k == K_CLAUSE || op.k == K_CLAUSE_EXT {
                continue;
            }
            ctx.ops += 1;
            let var = if nv > 0 { (op.a[0].unsigned_abs() as usize) % nv } else { 0 };
            let pol = op.a[1] & 1 == 1;
            match op.k {
                K_PUSH => {
                    hasher.push();
                    mstack.push(model.clone());
                    ctx.ev(51, &[mstack.len() as u64]);
                    ctx.note(|| format!("[{i}] push (depth {})", mstack.len()));
                }
                K_POP => {
                    if mstack.is_empty() {
                        continue;
                    }
                    hasher.pop();
                    model = mstack.pop().unwrap();
                    ctx.ev(52, &[mstack.len() as u64]);
                    ctx.note(|| format!("[{i}] pop -> {:?}", model));
                }
                K_DECIDE => {
                    if nv == 0 || model[var].is_some() {
                        continue; // callers decide unassigned variables only
                    }
                    hasher.decide(lit(var, pol));
                    model[var] = Some(pol);
                    ctx.ev(53, &[var as u64, pol as u64]);
                    ctx.note(|| format!("[{i}] decide x{var}={pol}"));
                }
                K_HASH | K_HASH_EXTRA => {
                    // the caller's model, optionally with extra assignments the hasher was not told about
                    let mut m = model.clone();
                    if op.k == K_HASH_EXTRA && (op.a[3] >> 56) & 3 == 3 && nv > 0 {
                        // an almost complete extension that falsifies as little as a short local search manages (so
                        // that, on formulas with dozens of clauses too, the residual is a handful of literals and the
                        // "only then" half of the statement applies): random values for the unassigned variables, a
                        // few hundred repair flips among them, then one to three of them withdrawn again
                        let mut lr = Rng::new(op.a[2] as u64 ^ (op.a[3] as u64).rotate_left(17));
                        let free: Vec<usize> = (0..nv).filter(|v| m[*v].is_none()).collect();
                        if !free.is_empty() {
                            for v in free.iter() {
                                m[*v] = Some(lr.bool());
                            }
                            for _ in 0..300 {
                                let bad: Vec<usize> = (0..clauses.len()).filter(|ci| !clauses[*ci].is_empty() && clauses[*ci].iter().all(|(v, p)| m[*v] == Some(!*p))).collect();
                                if bad.is_empty() {
                                    break;
                                }
                                let c = &clauses[bad[lr.below(bad.len() as u64) as usize]];
                                let cand: Vec<usize> = c.iter().map(|(v, _)| *v).filter(|v| model[*v].is_none()).collect();
                                if cand.is_empty() {
                                    break;
                                }
                                let v = cand[lr.below(cand.len() as u64) as usize];
                                m[v] = m[v].map(|x| !x);
                            }
                            for _ in 0..(1 + lr.below(3)) {
                                m[free[lr.below(free.len() as u64) as usize]] = None;
                            }
                        }
                    } else if op.k == K_HASH_EXTRA {
                        // extra assignments: one variable, about one in eight, or about half of them
                        let mask: i64 = match (op.a[3] >> 56) & 3 {
                            0 => 1i64 << (op.a[2].unsigned_abs() % 60),
                            1 => op.a[2] & (op.a[2] >> 7) & (op.a[2] >> 13),
                            _ => op.a[2],
                        };
                        for v in 0..nv {
                            if m[v].is_none() && (mask >> (v % 60)) & 1 == 1 && (v < 60 || (op.a[3] >> 57) & 1 == 1) {
                                m[v] = Some((op.a[3] >> (v % 56)) & 1 == 1);
                            }
                        }
                    }
                    let h = hasher.hash(&PartialModel::from_assignments(&m));
                    let hs = format!("{:?}", h);
                    n_hash += 1;
                    let (res, falsified) = residual(&clauses, &m);
                    ctx.ev(54, &[crate::rng::str_hash(&hs), falsified as u64]);
                    ctx.note(|| format!("[{i}] hash({:?}) = {hs}; residual {:?}{}", m, res, if falsified { " (falsifies a clause)" } else { "" }));
                    if falsified {
                        continue; // the property speaks about assignments that falsify no clause
                    }
                    match by_residual.get(&res) {
                        Some(prev) => {
                            ctx.check("C15", "hasher-equal-residual-equal-hash", *prev == hs, || {
                                format!("the residual {:?} hashed to {prev} earlier in this history and to {hs} now (model {:?}, depth {})", res, m, mstack.len())
                            })?;
                        }
                        None => {
                            by_residual.insert(res.clone(), hs.clone());
                        }
                    }
                    // "only then" holds as long as the product of the literal primes fits in 128 bits: for the whole
                    // formula (product_fits), or at least for this residual -- its literals carry some of the first
                    // n_occ_all primes, so the product of the largest |residual| of those bounds it
                    let residual_fits = {
                        let r_lits: usize = res.iter().map(|(_, c)| c.len()).sum();
                        r_lits <= 18 && n_occ_all <= 4000 && {
                            let mut prod: Option<u128> = Some(1);
                            for p in first_primes.iter().take(n_occ_all).rev().take(r_lits) {
                                prod = prod.and_then(|x| x.checked_mul(*p));
                            }
                            prod.is_some()
                        }
                    };
                    if product_fits || residual_fits {
                        match by_hash.get(&hs) {
                            Some(prev) => {
                                ctx.check("C15", "hasher-equal-hash-equal-residual", *prev == res, || {
                                    format!("hash {hs} was produced for residual {:?} and for residual {:?}", prev, res)
                                })?;
                            }
                            None => {
                                by_hash.insert(hs, res);
                            }
                        }
                    }
                }
                K_MSET => {
                    if nv == 0 {
                        continue;
                    }
                    pm.set(VarLabel::new(var as u64), pol);
                    pm_ref[var] = Some(pol);
                    let wv = (op.a[2].unsigned_abs() as usize) % WIDE;
                    pmw.set(VarLabel::new(wv as u64), pol);
                    pmw_ref[wv] = Some(pol);
                    ctx.ev(55, &[var as u64, pol as u64]);
                }
                K_MUNSET => {
                    if nv == 0 {
                        continue;
                    }
                    pm.unset(VarLabel::new(var as u64));
                    pm_ref[var] = None;
                    let wv = (op.a[2].unsigned_abs() as usize) % WIDE;
                    pmw.unset(VarLabel::new(wv as u64));
                    pmw_ref[wv] = None;
                    ctx.ev(56, &[var as u64]);
                }
                K_MCHECK => {
                    for v in 0..nv {
                        let l = VarLabel::new(v as u64);
                        ctx.check("C15", "model-get", pm.get(l) == pm_ref[v] && pm.is_set(l) == pm_ref[v].is_some(), || {
                            format!("PartialModel.get(x{v}) = {:?}, reference {:?}", pm.get(l), pm_ref[v])
                        })?;
                        for p in [false, true] {
                            let li = lit(v, p);
                            ctx.check("C15", "model-lit-implied", pm.lit_implied(li) == (pm_ref[v] == Some(p)) && pm.lit_neg_implied(li) == (pm_ref[v] == Some(!p)), || {
                                format!("lit_implied/lit_neg_implied of x{v}={p} disagree with the reference {:?}", pm_ref[v])
                            })?;
                        }
                    }
                    let mut got: Vec<(usize, bool)> = pm.assignment_iter().map(|l| (l.label().value_usize(), l.polarity())).collect();
                    got.sort();
                    let want: Vec<(usize, bool)> = (0..nv).filter_map(|v| pm_ref[v].map(|b| (v, b))).collect();
                    ctx.check("C15", "model-assignment-iter", got == want, || format!("assignment_iter yields {:?}, reference {:?}", got, want))?;
                    // the wide model
                    {
                        let mut got: Vec<(usize, bool)> = pmw.assignment_iter().map(|l| (l.label().value_usize(), l.polarity())).collect();
                        got.sort();
                        let want_w: Vec<(usize, bool)> = (0..WIDE).filter_map(|v| pmw_ref[v].map(|b| (v, b))).collect();
                        ctx.check("C15", "model-assignment-iter", got == want_w, || format!("wide model: assignment_iter yields {:?}, reference {:?}", got, want_w))?;
                        let probe = (op.a[3].unsigned_abs() as usize) % WIDE;
                        ctx.check("C15", "model-get", pmw.get(VarLabel::new(probe as u64)) == pmw_ref[probe], || format!("wide model: get(x{probe}) = {:?}, reference {:?}", pmw.get(VarLabel::new(probe as u64)), pmw_ref[probe]))?;
                        ctx.check("C15", "model-equality", pmw == PartialModel::from_assignments(&pmw_ref), || "wide model differs from a freshly built one with the same contents".to_string())?;
                    }
                    // equality is set equality, whatever the history of the object
                    let rebuilt = PartialModel::from_assignments(&pm_ref);
                    ctx.check("C15", "model-equality", pm == rebuilt && rebuilt == pm, || format!("a PartialModel with contents {:?} does not compare equal to a freshly built one with the same contents", pm_ref))?;
                    let lits: Vec<Literal> = want.iter().map(|(v, b)| lit(*v, *b)).collect();
                    let via_lits = PartialModel::from_litvec(&lits, nv);
                    ctx.check("C15", "model-equality", via_lits == pm, || format!("from_litvec({:?}) differs from the model with the same contents", want))?;
                    if pm_ref.iter().all(|x| x.is_some()) {
                        let total: Vec<bool> = pm_ref.iter().map(|x| x.unwrap()).collect();
                        ctx.check("C15", "model-equality", PartialModel::from_total_model(&total) == pm, || "from_total_model differs from the model with the same contents".to_string())?;
                    }
                    let same_sets = vs_ref[0] == vs_ref[1];
                    ctx.check("C15", "varset-equality", (vs[0] == vs[1]) == same_sets, || format!("VarSets {:?} and {:?}: == gives {}", vs_ref[0], vs_ref[1], vs[0] == vs[1]))?;
                    // equal sets are interchangeable as keys: std::hash::Hash agrees with == whatever the storage history
                    let std_hash = |s: &VarSet| {
                        use std::hash::{Hash, Hasher};
                        let mut h = std::collections::hash_map::DefaultHasher::new();
                        s.hash(&mut h);
                        h.finish()
                    };
                    if same_sets {
                        ctx.check("C15", "varset-hash-agrees-with-eq", std_hash(&vs[0]) == std_hash(&vs[1]), || format!("two VarSets holding {:?} compare equal but hash differently", vs_ref[0]))?;
                    }
                    for k in 0..2 {
                        let mut fresh = if i % 2 == 0 { VarSet::new() } else { VarSet::new_with_num_vars(WIDE) };
                        for v in vs_ref[k].iter() {
                            fresh.insert(VarLabel::new(*v as u64));
                        }
                        ctx.check("C15", "varset-equality", fresh == vs[k] && vs[k] == fresh, || format!("VarSet #{k} holding {:?} does not compare equal to a freshly built set with the same members", vs_ref[k]))?;
                        ctx.check("C15", "varset-hash-agrees-with-eq", std_hash(&fresh) == std_hash(&vs[k]), || format!("VarSet #{k} holding {:?} and a freshly built equal set hash differently", vs_ref[k]))?;
                    }
                    // difference against the hasher-side model
                    let other = PartialModel::from_assignments(&model);
                    let mut gd: Vec<(usize, bool)> = pm.difference(&other).map(|l| (l.label().value_usize(), l.polarity())).collect();
                    gd.sort();
                    let wd: Vec<(usize, bool)> = (0..nv).filter_map(|v| pm_ref[v].map(|b| (v, b))).filter(|(v, b)| model[*v] != Some(*b)).collect();
                    ctx.check("C15", "model-difference", gd == wd, || format!("difference yields {:?}, reference {:?}", gd, wd))?;
                    // is_sat_partial: every clause has a literal that the partial model makes true
                    let got = cnf.is_sat_partial(&pm);
                    let want = clauses_in.iter().all(|c| c.iter().any(|(v, p)| pm_ref[*v] == Some(*p)));
                    ctx.check("C15", "cnf-is-sat-partial", got == want, || format!("is_sat_partial({:?}) = {got}, definition gives {want}", pm_ref))?;
                    // VarSets
                    for k in 0..2 {
                        let got: Vec<usize> = vs[k].iter().map(|l| l.value_usize()).collect();
                        let want: Vec<usize> = vs_ref[k].iter().copied().collect();
                        ctx.check("C15", "varset-contents", got == want && vs[k].len() == want.len() && vs[k].is_empty() == want.is_empty(), || {
                            format!("VarSet #{k} holds {:?} (len {}), reference {:?}", got, vs[k].len(), want)
                        })?;
                    }
                    let m: Vec<usize> = vs[0].minus(&vs[1]).iter().map(|l| l.value_usize()).collect();
                    let d: Vec<usize> = vs[0].difference(&vs[1]).map(|l| l.value_usize()).collect();
                    let wm: Vec<usize> = vs_ref[0].difference(&vs_ref[1]).copied().collect();
                    ctx.check("C15", "varset-minus", m == wm && d == wm, || format!("minus/difference = {:?}/{:?}, reference {:?}", m, d, wm))?;
                    let it: Vec<usize> = vs[0].intersect(&vs[1]).collect();
                    let iv: Vec<usize> = vs[0].intersect_varset(&vs[1]).iter().map(|l| l.value_usize()).collect();
                    let wi: Vec<usize> = vs_ref[0].intersection(&vs_ref[1]).copied().collect();
                    ctx.check("C15", "varset-intersect", it == wi && iv == wi, || format!("intersect = {:?}/{:?}, reference {:?}", it, iv, wi))?;
                    let u: Vec<usize> = vs[0].union(&vs[1]).iter().map(|l| l.value_usize()).collect();
                    let wu: Vec<usize> = vs_ref[0].union(&vs_ref[1]).copied().collect();
                    ctx.check("C15", "varset-union", u == wu, || format!("union = {:?}, reference {:?}", u, wu))?;
                    ctx.ev(57, &[got as u64]);
                }
                K_VS_INSERT | K_VS_REMOVE => {
                    let k = (op.a[1] & 1) as usize;
                    let v = (op.a[2].unsigned_abs() as usize) % 200; // crosses the 32/64/128-bit word boundaries of the bit sets
                    if op.k == K_VS_INSERT {
                        vs[k].insert(VarLabel::new(v as u64));
                        vs_ref[k].insert(v);
                    } else {
                        vs[k].remove(VarLabel::new(v as u64));
                        vs_ref[k].remove(&v);
                    }
                    let c = vs[k].contains(VarLabel::new(v as u64));
                    ctx.check("C15", "varset-contains", c == vs_ref[k].contains(&v), || format!("VarSet #{k}.contains({v}) = {c}"))?;
                    ctx.ev(58, &[k as u64, v as u64]);
                }
                K_VS_UNION => {
                    let k = (op.a[1] & 1) as usize;
                    let other = vs[1 - k].clone();
                    vs[k].union_with(&other);
                    let o: Vec<usize> = vs_ref[1 - k].iter().copied().collect();
                    vs_ref[k].extend(o);
                    ctx.ev(59, &[k as u64]);
                }
                K_CONDITION => {
                    // chains of condition: the restricted formula agrees with the definition on every assignment
                    if nv == 0 {
                        continue;
                    }
                    let next = cur_cnf.condition(lit(var, pol));
                    let next_ref: Vec<Vec<(usize, bool)>> = cur_ref
                        .iter()
                        .filter(|c| !c.contains(&(var, pol)))
                        .map(|c| c.iter().filter(|(v, _)| *v != var).copied().collect())
                        .collect();
                    for m in points.iter().copied() {
                        let a: Vec<bool> = (0..nv).map(|v| (m >> v) & 1 == 1).collect();
                        let got = next.eval(&a);
                        // definition: the current formula with x_var := pol
                        let m2 = if pol { m | (1u64 << var) } else { m & !(1u64 << var) };
                        let want = eval_ref(&cur_ref, m2);
                        ctx.check("C15", "cnf-condition", got == want, || {
                            format!("({:?}).condition(x{var}={pol}) evaluates to {got} on {:?}; the restricted formula gives {want}", cur_ref, a)
                        })?;
                    }
                    ctx.evals += 1;
                    let _ = is_taut;
                    // the conditioned formula's own hasher is a residual hasher of *that* formula: assignments that
                    // falsify none of its clauses and leave the same residual hash equally -- whether or not they also
                    // mention the variable that was conditioned away, and whatever they say about its new units
                    {
                        let nclauses: Vec<Vec<(usize, bool)>> = next.clauses().iter().map(|c| c.iter().map(|l| (l.label().value_usize(), l.polarity())).collect()).collect();
                        let nh = next.hasher();
                        let mut seen: BTreeMap<Vec<(usize, Vec<(usize, bool)>)>, (String, Vec<Option<bool>>)> = BTreeMap::new();
                        for j in 0..10u64 {
                            let bits = crate::rng::mix(op.a[2] as u64 ^ 0x5eed, j / 2);
                            let mut m: Vec<Option<bool>> = (0..nv).map(|v| match (bits >> (2 * (v % 30))) & 3 { 0 => Some(false), 1 => Some(true), _ => None }).collect();
                            // odd variants differ from the even one only on the conditioned variable
                            m[var] = if j % 2 == 0 { None } else { Some((bits >> 62) & 1 == 1) };
                            let (res, falsified) = residual(&nclauses, &m);
                            if falsified {
                                continue;
                            }
                            let hs = format!("{:?}", nh.hash(&PartialModel::from_assignments(&m)));
                            if let Some((prev, pm0)) = seen.get(&res) {
                                ctx.check("C15", "hasher-equal-residual-equal-hash", *prev == hs, || {
                                    format!("hasher of ({:?}).condition(x{var}={pol}): assignments {:?} and {:?} leave the same residual {:?} but hash to {prev} and {hs}", cur_ref, pm0, m, res)
                                })?;
                            } else {
                                seen.insert(res, (hs, m));
                            }
                        }
                    }
                    cur_cnf = next;
                    cur_ref = next_ref;
                    ctx.ev(60, &[var as u64, pol as u64, cur_ref.len() as u64]);
                }
                _ => {}
            }
        }
        ctx.count("hash-calls", n_hash);
        ctx.count("hash-injectivity-applicable", product_fits as u64);
        ctx.count("empty-formula", clauses_in.is_empty() as u64);
        ctx.nontrivial = n_hash >= 2 && !clauses_in.is_empty();
        ctx.states.extend(by_residual.values().map(|s| crate::rng::str_hash(s)));
        Ok(())
    }

    fn render_op(&self, op: &Op) -> String {
        let names = ["clause", "push", "decide", "pop", "hash", "hash+extra", "model.set", "model.unset", "varset.insert", "varset.remove", "varset.union_with", "cnf.condition", "audit model/varsets"];
        if op.k == K_CLAUSE || op.k == K_CLAUSE_EXT {
            format!("{} {:?}", if op.k == K_CLAUSE { "clause" } else { "  ...more literals" }, clause_of(op))
        } else {
            format!("c{}: {} {:?}", op.c, names.get(op.k as usize).unwrap_or(&"?"), op.a)
        }
    }
}

//! `table` world (C02, also the mechanism under C04/C11): the robin-hood
//! unique table driven directly, with simulator-chosen hash values.
//!
//! Reference model: a map key -> address of first insertion.

use crate::core::*;
use crate::rng::{mix, Rng};
use rsdd::verif::BackedRobinhoodTable;
use std::collections::{BTreeMap, BTreeSet};

pub struct TableWorld;

const K_INSERT: u8 = 0;
const K_GROW: u8 = 1;
const K_ITER: u8 = 2;
const K_GET_BY_HASH: u8 = 3;
const K_BULK_INSERT: u8 = 4;
const K_BULK_RELOOKUP: u8 = 5;

fn fx(k: u64) -> u64 {
    // FxHasher on one u64 word (what a pointer hash looks like)
    k.wrapping_mul(0x517c_c1b7_2722_0a95)
}

/// the simulator-chosen hash of key `k`
fn hash_of(mode: i64, hseed: u64, k: u64) -> u64 {
    match mode {
        // uniform
        0 => mix(hseed, k),
        // clustered at slot 0 of every power-of-two size up to 2^12, distinct values
        1 => (k + 1) << 12,
        // clustered at the last slots (wrap-around)
        2 => ((k + 1) << 12) | (4095 - (k % 3)),
        // all equal
        3 => hseed | 1,
        // pointer-hash-like: FxHash of 16-byte-aligned "addresses"
        4 => fx(0x6000_0000_0000 + (hseed & 0xffff0) + 64 * k),
        // few distinct values (heavy collisions) but more than one
        5 => mix(hseed, k % 3),
        // land on slots 0,1,2 of the *next* sizes for the first few keys, then fx
        6 => {
            if k < 6 {
                (k % 3) + ((k / 3 + 1) << 20)
            } else {
                fx(0x6000_0000_1000 + 72 * k)
            }
        }
        _ => mix(hseed, k),
    }
}

/// FxHasher (rustc-hash 1.x, 64 bit) of a two-word element: ((rotl(a*K, 5)) ^ b) * K
const FX_K: u64 = 0x51_7c_c1_b7_27_22_0a_95;
fn fx2(a: u64, b: u64) -> u64 {
    (a.wrapping_mul(FX_K).rotate_left(5) ^ b).wrapping_mul(FX_K)
}

/// element number `k` of the run's family: 0 = unrelated elements, 1 = all share one hash, 2 = all hash to 0,
/// 3 = a mixture of the three
fn trait_elem(family: i64, hseed: u64, k: u64) -> (u64, u64) {
    let a = mix(hseed, k);
    let t = mix(hseed, 0xF00D); // rotl(a*K,5) ^ b of the common-hash family
    let fam = if family == 3 { (mix(hseed ^ 3, k) % 3) as i64 } else { family };
    let b = match fam {
        0 => mix(hseed ^ 0xB, k),
        1 => a.wrapping_mul(FX_K).rotate_left(5) ^ t,
        _ => a.wrapping_mul(FX_K).rotate_left(5),
    };
    (a, b)
}

/// the public trait entry point with elements whose real FxHash collides / is zero
fn run_via_trait(plan: &Plan, ctx: &mut Ctx) -> R {
    use rsdd::verif::UniqueTable;
    let family = plan.get("hmode") & 3;
    let hseed = plan.get("hseed") as u64;
    let prop = "C02";
    ctx.cur_prop = prop;
    let tbl: *mut BackedRobinhoodTable<'static, (u64, u64)> = Box::leak(Box::new(BackedRobinhoodTable::<(u64, u64)>::new()));
    let mut model: BTreeMap<(u64, u64), usize> = BTreeMap::new();
    let mut addrs: BTreeSet<usize> = BTreeSet::new();
    let mut direct_grows = 0;
    let nkeys = plan.get("nkeys").max(1) as u64;
    // the harness's idea of the hash must be the library's: checked once per run on the first element
    {
        use std::hash::{Hash, Hasher};
        let e = trait_elem(family, hseed, 0);
        let mut h = rustc_hash::FxHasher::default();
        e.hash(&mut h);
        assert!(h.finish() == fx2(e.0, e.1), "harness: FxHasher preimage formula out of date");
    }
    for (i, op) in plan.ops.iter().enumerate() {
        ctx.step = i;
        ctx.ops += 1;
        match op.k {
            K_INSERT | K_GET_BY_HASH | K_BULK_INSERT | K_BULK_RELOOKUP => {
                let e = trait_elem(family, hseed, (op.a[0] as u64) % nkeys);
                let r: &(u64, u64) = unsafe { (*tbl).get_or_insert(e) };
                let a = r as *const (u64, u64) as usize;
                ctx.ev(14, &[e.0, e.1, fx2(e.0, e.1), a as u64]);
                ctx.check(prop, "table-stored-value", *r == e, || format!("get_or_insert({e:?}) (FxHash {:#x}) returned the address of {:?}", fx2(e.0, e.1), *r))?;
                match model.get(&e) {
                    Some(prev) => {
                        ctx.check(prop, "table-same-key-same-address", *prev == a, || {
                            format!("element {e:?} (FxHash {:#x}) was stored at {prev:#x} but a second copy was handed out at {a:#x}", fx2(e.0, e.1))
                        })?;
                    }
                    None => {
                        ctx.check(prop, "table-distinct-keys-distinct-addresses", !addrs.contains(&a), || {
                            format!("new element {e:?} (FxHash {:#x}) was given address {a:#x} which already holds another element", fx2(e.0, e.1))
                        })?;
                        model.insert(e, a);
                        addrs.insert(a);
                    }
                }
                let n = unsafe { (*tbl).num_nodes() };
                ctx.check(prop, "table-num-nodes", n == model.len(), || format!("num_nodes() = {n} but {} distinct elements were inserted", model.len()))?;
            }
            K_GROW => {
                if direct_grows < 6 {
                    direct_grows += 1;
                    ctx.count("direct-grow", 1);
                    unsafe { (*tbl).grow() };
                    ctx.ev(11, &[]);
                }
            }
            K_ITER => {
                let mut seen: Vec<(u64, u64)> = unsafe { (*tbl).iter().copied().collect() };
                seen.sort_unstable();
                let expect: Vec<(u64, u64)> = model.keys().copied().collect();
                ctx.check(prop, "table-iter-each-key-once", seen == expect, || format!("iter() yields {} entries, model has {} elements", seen.len(), expect.len()))?;
                ctx.ev(12, &[seen.len() as u64]);
            }
            _ => {}
        }
    }
    ctx.count("table-runs-through-public-trait", 1);
    ctx.nontrivial = model.len() >= 2;
    ctx.states.push(model.len() as u64);
    Ok(())
}

impl World for TableWorld {
    fn name(&self) -> &'static str {
        "table"
    }
    fn properties(&self) -> &'static [&'static str] {
        &["C02", "C11"]
    }

    fn generate(&self, run_seed: u64, target: &str, thorough: bool) -> Plan {
        let mut cfg = Cfg::new();
        let mut c = Rng::stream(run_seed, "config");
        let mut o = Rng::stream(run_seed, "ops");
        let mut p = Rng::stream(run_seed, "placement");
        // 1 run in 256 (quick) is the shipped-capacity scenario
        let shipped = target != "C11" && c.below(if thorough { 64 } else { 256 }) == 0;
        cfg.insert("shipped".into(), shipped as i64);
        cfg.insert("hseed".into(), (c.next() >> 1) as i64);
        cfg.insert("place_off".into(), (p.below(4096) * 16) as i64);
        cfg.insert("place_pad_every".into(), p.below(4) as i64);
        cfg.insert("place_pad_bytes".into(), (p.below(8) * 16) as i64);
        let mut ops = Vec::new();
        let mut rates = [0u16; NUM_SITES];
        if shipped {
            cfg.insert("table_cap".into(), 0);
            cfg.insert("hmode".into(), 6);
            cfg.insert("by_hash".into(), 0);
            let n = 91_751 + c.below(3000) as i64 + if c.bool() { 92_000 } else { 0 };
            cfg.insert("nkeys".into(), n);
            ops.push(Op { c: 0, k: K_BULK_INSERT, a: [0, n, 0, 0] });
            ops.push(Op { c: 0, k: K_BULK_RELOOKUP, a: [0, n, 0, 0] });
            ops.push(Op { c: 0, k: K_ITER, a: [0; 4] });
        } else {
            let caps = [1, 2, 3, 4, 5, 8, 16, 64];
            cfg.insert("table_cap".into(), *c.pick(&caps));
            cfg.insert("hmode".into(), c.below(7) as i64);
            cfg.insert("by_hash".into(), if target == "C11" { 1 } else if target == "C02" { 0 } else { (c.below(4) == 0) as i64 });
            // one structural-identity run in four goes through the public `UniqueTable::get_or_insert` (which hashes
            // the element itself) with two-word elements whose FxHash the simulator controls through preimages:
            // families of distinct elements with one common hash, and elements whose hash is exactly 0
            let via_trait = target != "C11" && c.below(4) == 0;
            cfg.insert("via_trait".into(), via_trait as i64);
            if via_trait {
                cfg.insert("by_hash".into(), 0);
                cfg.insert("hmode".into(), c.below(4) as i64);
            }
            let small = c.bool();
            let nkeys = 1 + c.below(if small { 12 } else { 120 }) as i64;
            cfg.insert("nkeys".into(), nkeys);
            if c.below(3) == 0 {
                rates[rsdd::verif::Site::TableGrowNow as usize] = *c.pick(&[4u16, 32, 128]);
            }
            let len = 1 + o.below(if thorough { 400 } else { 160 });
            let ncallers = 1 + c.below(3);
            for _ in 0..len {
                let caller = o.below(ncallers) as u8;
                let k = o.weighted(&[70, 4, 6, 20]) as u8;
                ops.push(Op {
                    c: caller,
                    k,
                    a: [o.below(nkeys as u64) as i64, 0, 0, 0],
                });
            }
            ops.push(Op { c: 0, k: K_ITER, a: [0; 4] });
        }
        Plan {
            world: "table".into(),
            target: target.into(),
            seed: run_seed,
            cfg,
            ops,
            faults: Faults::Random {
                seed: mix(run_seed, 77),
                rates,
            },
        }
    }

    fn execute(&self, plan: &Plan, ctx: &mut Ctx) -> R {
        if plan.get_or("via_trait", 0) != 0 {
            return run_via_trait(plan, ctx);
        }
        let mode = plan.get("hmode");
        let hseed = plan.get("hseed") as u64;
        let by_hash = plan.get("by_hash") != 0;
        // identity-by-hash (get_or_insert_by_hash(.., true) / get_by_hash) is only used by the hash-identified
        // builders of C11; structural identity is what the BDD/SDD unique tables of C02/C04 use
        let prop: &'static str = if by_hash { "C11" } else { "C02" };
        ctx.cur_prop = prop;
        let tbl: *mut BackedRobinhoodTable<'static, u64> =
            Box::leak(Box::new(BackedRobinhoodTable::<u64>::new()));
        // reference model: identity -> first address
        let mut model: BTreeMap<u64, usize> = BTreeMap::new();
        let mut addrs: BTreeSet<usize> = BTreeSet::new();
        // in by-hash mode identity is the hash value, else the key
        let ident = |k: u64| if by_hash { hash_of(mode, hseed, k) } else { k };
        let mut first_key: BTreeMap<u64, u64> = BTreeMap::new();
        let mut direct_grows = 0;

        let insert = |ctx: &mut Ctx, k: u64, model: &mut BTreeMap<u64, usize>, addrs: &mut BTreeSet<usize>, first_key: &mut BTreeMap<u64, u64>| -> R {
            let h = hash_of(mode, hseed, k);
            let r: &u64 = unsafe { (*tbl).get_or_insert_by_hash(h, k, by_hash) };
            let a = r as *const u64 as usize;
            let id = ident(k);
            ctx.ev(10, &[k, h, a as u64]);
            match model.get(&id) {
                Some(prev) => {
                    ctx.check(prop, "table-same-key-same-address", *prev == a, || {
                        format!("key {k} (hash {h:#x}) was stored at {prev:#x} but a second copy was handed out at {a:#x}")
                    })?;
                    let expect = *first_key.get(&id).unwrap();
                    ctx.check(prop, "table-stored-value", *r == expect, || {
                        format!("address {a:#x} holds {} but key {expect} was stored there", *r)
                    })?;
                }
                None => {
                    ctx.check(prop, "table-distinct-keys-distinct-addresses", !addrs.contains(&a), || {
                        format!("new key {k} was given address {a:#x} which already holds another key")
                    })?;
                    ctx.check(prop, "table-stored-value", *r == k, || {
                        format!("address {a:#x} holds {} right after inserting {k}", *r)
                    })?;
                    model.insert(id, a);
                    addrs.insert(a);
                    first_key.insert(id, k);
                }
            }
            let n = unsafe { (*tbl).num_nodes() };
            ctx.check(prop, "table-num-nodes", n == model.len(), || {
                format!("num_nodes() = {n} but {} distinct keys were inserted", model.len())
            })?;
            Ok(())
        };

        for (i, op) in plan.ops.iter().enumerate() {
            ctx.step = i;
            ctx.ops += 1;
            let nkeys = plan.get("nkeys").max(1) as u64;
            match op.k {
                K_INSERT => {
                    let k = (op.a[0] as u64) % nkeys;
                    insert(ctx, k, &mut model, &mut addrs, &mut first_key)?;
                }
                K_GROW => {
                    // growth at an arbitrary instant (bounded so that scripted growth cannot explode)
                    if direct_grows < 6 {
                        direct_grows += 1;
                        ctx.count("direct-grow", 1);
                        unsafe { (*tbl).grow() };
                        ctx.ev(11, &[]);
                    }
                }
                K_ITER => {
                    let mut seen: Vec<u64> = unsafe { (*tbl).iter().copied().collect() };
                    seen.sort_unstable();
                    let mut expect: Vec<u64> = first_key.values().copied().collect();
                    expect.sort_unstable();
                    ctx.check(prop, "table-iter-each-key-once", seen == expect, || {
                        format!("iter() yields {} entries, model has {} keys (first difference at {:?})",
                            seen.len(), expect.len(),
                            seen.iter().zip(expect.iter()).position(|(a, b)| a != b))
                    })?;
                    ctx.ev(12, &[seen.len() as u64]);
                }
                K_GET_BY_HASH => {
                    let k = (op.a[0] as u64) % nkeys;
                    if by_hash {
                        let h = hash_of(mode, hseed, k);
                        let r = unsafe { (*tbl).get_by_hash(h) }.map(|r| r as *const u64 as usize);
                        let want = model.get(&h).copied();
                        ctx.check(prop, "table-get-by-hash", r == want, || {
                            format!("get_by_hash({h:#x}) = {r:x?}, model says {want:x?}")
                        })?;
                        ctx.ev(13, &[h, r.unwrap_or(0) as u64]);
                    } else {
                        insert(ctx, k, &mut model, &mut addrs, &mut first_key)?;
                    }
                }
                K_BULK_INSERT | K_BULK_RELOOKUP => {
                    let start = op.a[0].max(0) as u64;
                    let n = op.a[1].max(0) as u64;
                    for k in start..start + n {
                        insert(ctx, k % nkeys, &mut model, &mut addrs, &mut first_key)?;
                    }
                }
                _ => {}
            }
        }
        ctx.nontrivial = model.len() >= 2;
        ctx.states.push(model.len() as u64);
        Ok(())
    }

    fn simplify_cfg(&self, plan: &Plan) -> Vec<Cfg> {
        let mut v = Vec::new();
        for (k, val) in [("place_off", 0), ("place_pad_every", 0), ("place_pad_bytes", 0), ("hmode", 0), ("by_hash", 0)] {
            if plan.get_or(k, val) != val {
                let mut c = plan.cfg.clone();
                c.insert(k.into(), val);
                v.push(c);
            }
        }
        v
    }

    fn render_op(&self, op: &Op) -> String {
        match op.k {
            K_INSERT => format!("c{}: get_or_insert(key#{})", op.c, op.a[0]),
            K_GROW => format!("c{}: grow()", op.c),
            K_ITER => format!("c{}: audit iter()/num_nodes()", op.c),
            K_GET_BY_HASH => format!("c{}: get_by_hash / re-lookup (key#{})", op.c, op.a[0]),
            K_BULK_INSERT => format!("c{}: insert keys {}..{}", op.c, op.a[0], op.a[0] + op.a[1]),
            K_BULK_RELOOKUP => format!("c{}: re-lookup keys {}..{}", op.c, op.a[0], op.a[0] + op.a[1]),
            _ => format!("{:?}", op),
        }
    }
}

//! `bdd` world (C01, C02, second sentence of C16).
//!
//! K logical callers share one real `RobddBuilder`. Every operation is also
//! applied to the truth-table model; after every step the result is read back
//! by two independent walkers, canonicity and node shape are checked, and an
//! auditor re-examines old handles. With target C16 a fault-free twin builder
//! that caches every application executes the same history.

use crate::core::*;
use crate::rng::{mix, Rng};
use crate::tt::{self, TT};
use rsdd::builder::bdd::{BddBuilder, RobddBuilder};
use rsdd::builder::cache::{AllIteTable, IteTable, LruIteTable};
use rsdd::builder::BottomUpBuilder;
use rsdd::repr::{BddNode, BddPtr, DDNNFPtr, PartialModel, VarLabel, VarOrder};
use std::collections::{BTreeMap, BTreeSet};

pub struct BddWorld;

pub const K_VAR: u8 = 0;
pub const K_NEWVAR: u8 = 1;
pub const K_CONST: u8 = 2;
pub const K_NEG: u8 = 3;
pub const K_AND: u8 = 4;
pub const K_OR: u8 = 5;
pub const K_XOR: u8 = 6;
pub const K_IFF: u8 = 7;
pub const K_ITE: u8 = 8;
pub const K_COND: u8 = 9;
pub const K_CONDMODEL: u8 = 10;
pub const K_EXISTS: u8 = 11;
pub const K_COMPOSE: u8 = 12;
pub const K_ANDLST: u8 = 13;
pub const K_ORLST: u8 = 14;
pub const K_EQ: u8 = 15;
pub const K_REISSUE: u8 = 16;
pub const K_AUDIT: u8 = 17;
pub const K_NEWLABEL: u8 = 18;
const NKINDS: usize = 19;
const KNAMES: [&str; NKINDS] = [
    "var", "new_var", "const", "negate", "and", "or", "xor", "iff", "ite", "condition",
    "condition_model", "exists", "compose", "and_lst", "or_lst", "eq", "reissue", "audit",
    "new_label+var",
];

type Ptr = BddPtr<'static>;

#[derive(Clone, Copy)]
pub struct H {
    pub ptr: Ptr,
    pub tt: TT,
}

pub fn addr(p: Ptr) -> usize {
    match p {
        BddPtr::Reg(n) | BddPtr::Compl(n) => n as *const BddNode as usize,
        BddPtr::PtrTrue => 1,
        BddPtr::PtrFalse => 0,
    }
}
pub fn pkey(p: Ptr) -> (usize, u8) {
    match p {
        BddPtr::Reg(n) => (n as *const BddNode as usize, 0),
        BddPtr::Compl(n) => (n as *const BddNode as usize, 1),
        BddPtr::PtrTrue => (0, 2),
        BddPtr::PtrFalse => (0, 3),
    }
}

/// independent walker over the public node fields (var/low/high + complement variant)
pub fn walk_raw(p: Ptr, memo: &mut BTreeMap<usize, TT>) -> TT {
    match p {
        BddPtr::PtrTrue => tt::TRUE,
        BddPtr::PtrFalse => tt::FALSE,
        BddPtr::Reg(n) => node_tt(n, memo),
        BddPtr::Compl(n) => !node_tt(n, memo),
    }
}
fn node_tt(n: &'static BddNode<'static>, memo: &mut BTreeMap<usize, TT>) -> TT {
    let a = n as *const BddNode as usize;
    if let Some(t) = memo.get(&a) {
        return *t;
    }
    let v = n.var.value_usize();
    let t = if v >= tt::MAXV {
        // cannot happen for diagrams built by this world; make it visible
        tt::FALSE
    } else {
        tt::ite(tt::VAR[v], walk_raw(n.high, memo), walk_raw(n.low, memo))
    };
    memo.insert(a, t);
    t
}

/// second walker: only through the public accessors low()/high()/var_safe()
pub fn walk_acc(p: Ptr, memo: &mut BTreeMap<(usize, u8), TT>) -> TT {
    if p.is_true() {
        return tt::TRUE;
    }
    if p.is_false() {
        return tt::FALSE;
    }
    let k = pkey(p);
    if let Some(t) = memo.get(&k) {
        return *t;
    }
    let v = p.var_safe().unwrap().value_usize();
    let t = tt::ite(tt::VAR[v.min(tt::MAXV - 1)], walk_acc(p.high(), memo), walk_acc(p.low(), memo));
    memo.insert(k, t);
    t
}

/// canonical structural signature (independent of addresses)
pub fn sig(p: Ptr, memo: &mut BTreeMap<usize, u64>) -> u64 {
    match p {
        BddPtr::PtrTrue => 0x11,
        BddPtr::PtrFalse => 0x22,
        BddPtr::Reg(n) => node_sig(n, memo),
        BddPtr::Compl(n) => mix(node_sig(n, memo), 0xC0),
    }
}
fn node_sig(n: &'static BddNode<'static>, memo: &mut BTreeMap<usize, u64>) -> u64 {
    let a = n as *const BddNode as usize;
    if let Some(s) = memo.get(&a) {
        return *s;
    }
    let s = mix(mix(n.var.value(), sig(n.low, memo)), sig(n.high, memo));
    memo.insert(a, s);
    s
}

pub fn collect_nodes(p: Ptr, out: &mut BTreeMap<usize, &'static BddNode<'static>>) {
    if let BddPtr::Reg(n) | BddPtr::Compl(n) = p {
        let a = n as *const BddNode as usize;
        if out.contains_key(&a) {
            return;
        }
        out.insert(a, n);
        collect_nodes(n.low, out);
        collect_nodes(n.high, out);
    }
}

pub fn perm_from_index(n: usize, mut idx: u64) -> Vec<usize> {
    let mut items: Vec<usize> = (0..n).collect();
    let mut out = Vec::new();
    for i in (1..=n).rev() {
        let j = (idx % i as u64) as usize;
        idx /= i as u64;
        out.push(items.remove(j));
    }
    out
}

/// an operation with its operands resolved to pool indices
/// operand positions of a list operation: short lists use the three operands, long ones repeat the first
/// two and end with the third (so that every element, the last one in particular, can matter)
/// The partial model with contents `a`: built in one go, or (`lived`) as a long-lived model that reached the
/// same contents through earlier decisions -- variables first set the other way, set and withdrawn, set twice
/// (`salt` picks which). Both denote the same assignment.
pub fn model_with_history(a: &[Option<bool>], lived: bool, salt: u32) -> PartialModel {
    if !lived {
        return PartialModel::from_assignments(a);
    }
    let mut m = PartialModel::new(a.len());
    for (v, x) in a.iter().enumerate() {
        let l = VarLabel::new(v as u64);
        match (x, (salt >> (v % 16)) & 3) {
            (Some(b), 0) => {
                m.set(l, !*b);
            }
            (Some(b), 1) => {
                m.set(l, *b);
            }
            (None, 2) => m.set(l, salt & 1 == 0),
            (None, 3) => m.set(l, salt & 1 == 1),
            _ => {}
        }
    }
    for (v, x) in a.iter().enumerate().rev() {
        let l = VarLabel::new(v as u64);
        match x {
            Some(b) => m.set(l, *b),
            None => m.unset(l),
        }
    }
    m
}

pub fn list_items(x: &[usize; 3], len: usize) -> Vec<usize> {
    match len {
        0 => vec![],
        1 => vec![x[2]],
        2 => vec![x[0], x[2]],
        3 => vec![x[0], x[1], x[2]],
        _ => {
            let mut v: Vec<usize> = (0..len - 1).map(|j| if j % 2 == 0 { x[0] } else { x[1] }).collect();
            v.push(x[2]);
            v
        }
    }
}
pub const LIST_LENS: [usize; 14] = [3, 3, 3, 0, 1, 2, 4, 7, 33, 64, 65, 67, 100, 129];

#[derive(Clone, Copy)]
struct Resolved {
    kind: u8,
    x: [usize; 3],
    label: usize,
    flag: bool,
    bits: (u32, u32),
    list_len: usize,
    result: Option<usize>,
}

struct Sys<T: IteTable<'static, Ptr> + Default + 'static> {
    b: &'static RobddBuilder<'static, T>,
    pool: Vec<Ptr>,
}

fn apply<T: IteTable<'static, Ptr> + Default + 'static>(
    b: &'static RobddBuilder<'static, T>,
    r: &Resolved,
    pool: &[Ptr],
    nvars_now: usize,
) -> Option<Ptr> {
    let g = |i: usize| pool[r.x[i]];
    let l = VarLabel::new(r.label as u64);
    Some(match r.kind {
        K_VAR => b.var(l, r.flag),
        K_NEWVAR => {
            let (lbl, p) = b.new_var(r.flag);
            assert_eq!(lbl.value_usize(), r.label, "harness: label bookkeeping");
            p
        }
        K_NEWLABEL => {
            let lbl = b.new_label();
            assert_eq!(lbl.value_usize(), r.label, "harness: label bookkeeping");
            b.var(lbl, r.flag)
        }
        K_CONST => {
            if r.flag {
                b.true_ptr()
            } else {
                b.false_ptr()
            }
        }
        K_NEG => b.negate(g(0)),
        K_AND => b.and(g(0), g(1)),
        K_OR => b.or(g(0), g(1)),
        K_XOR => b.xor(g(0), g(1)),
        K_IFF => b.iff(g(0), g(1)),
        K_ITE => b.ite(g(0), g(1), g(2)),
        K_COND => b.condition(g(0), l, r.flag),
        K_CONDMODEL => {
            let a: Vec<Option<bool>> = (0..nvars_now)
                .map(|v| {
                    if r.bits.0 >> v & 1 == 1 {
                        Some(r.bits.1 >> v & 1 == 1)
                    } else {
                        None
                    }
                })
                .collect();
            b.condition_model(g(0), &model_with_history(&a, r.flag, r.bits.0 ^ r.bits.1.rotate_left(3)))
        }
        K_EXISTS => b.exists(g(0), l),
        K_COMPOSE => b.compose(g(0), l, g(1)),
        K_ANDLST => b.and_lst(&list_items(&r.x, r.list_len).iter().map(|i| pool[*i]).collect::<Vec<_>>()),
        K_ORLST => b.or_lst(&list_items(&r.x, r.list_len).iter().map(|i| pool[*i]).collect::<Vec<_>>()),
        _ => return None,
    })
}

fn model_of(r: &Resolved, tts: &[TT], nvars_now: usize) -> TT {
    let g = |i: usize| tts[r.x[i]];
    match r.kind {
        K_VAR | K_NEWVAR | K_NEWLABEL => tt::lit(r.label, r.flag),
        K_CONST => {
            if r.flag {
                tt::TRUE
            } else {
                tt::FALSE
            }
        }
        K_NEG => !g(0),
        K_AND => g(0) & g(1),
        K_OR => g(0) | g(1),
        K_XOR => g(0) ^ g(1),
        K_IFF => tt::iff(g(0), g(1)),
        K_ITE => tt::ite(g(0), g(1), g(2)),
        K_COND => tt::restrict(g(0), r.label, r.flag),
        K_CONDMODEL => {
            let mut t = g(0);
            for v in 0..nvars_now {
                if r.bits.0 >> v & 1 == 1 {
                    t = tt::restrict(t, v, r.bits.1 >> v & 1 == 1);
                }
            }
            t
        }
        K_EXISTS => tt::exists(g(0), r.label),
        K_COMPOSE => tt::compose_doc(g(0), r.label, g(1)),
        K_ANDLST => list_items(&r.x, r.list_len).iter().fold(tt::TRUE, |a, i| a & tts[*i]),
        K_ORLST => list_items(&r.x, r.list_len).iter().fold(tt::FALSE, |a, i| a | tts[*i]),
        _ => unreachable!(),
    }
}

/// shape of one node (C02, second sentence)
fn check_node_shape(
    ctx: &mut Ctx,
    n: &'static BddNode<'static>,
    order: &VarOrder,
) -> R {
    let a = n as *const BddNode as usize;
    ctx.check("C02", "bdd-high-edge-regular", !n.high.is_neg() && !n.high.is_false(), || {
        format!("node {a:#x} (var {}) has a complemented or constant-false high edge", n.var.value())
    })?;
    ctx.check("C02", "bdd-no-redundant-node", n.low != n.high, || {
        format!("node {a:#x} (var {}) has two identical children", n.var.value())
    })?;
    for child in [n.low, n.high] {
        if let Some(cv) = child.var_safe() {
            ctx.check("C02", "bdd-order-respected", order.lt(n.var, cv), || {
                format!("node {a:#x}: var {} is not before child var {} in the order {}", n.var.value(), cv.value(), order)
            })?;
        }
    }
    Ok(())
}

fn run<T: IteTable<'static, Ptr> + Default + 'static>(plan: &Plan, ctx: &mut Ctx) -> R {
    let nvars0 = plan.get("nvars0").clamp(0, 7) as usize;
    let perm = perm_from_index(nvars0, plan.get("order_idx") as u64);
    let labels: Vec<VarLabel> = perm.iter().map(|v| VarLabel::new(*v as u64)).collect();
    let order = VarOrder::new(&labels);
    let b: &'static RobddBuilder<'static, T> = Box::leak(Box::new(RobddBuilder::<T>::new(order.clone())));
    let mut sys = Sys { b, pool: Vec::new() };
    // fault-free twin that caches every application (C16)
    let twin_on = ctx.wants("C16") && plan.get_or("twin", 1) != 0;
    let twin: Option<&'static RobddBuilder<'static, AllIteTable<Ptr>>> = if twin_on {
        rsdd::verif::set_knobs(Some(16384), None);
        let t = Box::leak(Box::new(RobddBuilder::<AllIteTable<Ptr>>::new(order)));
        let tc = plan.get_or("table_cap", 0);
        let lp = plan.get_or("lru_pow", -1);
        rsdd::verif::set_knobs(
            if tc == 0 { None } else { Some(tc as usize) },
            if lp < 0 { None } else { Some(lp as usize) },
        );
        Some(t)
    } else {
        None
    };
    let mut twin_pool: Vec<Ptr> = Vec::new();
    let mut sig_b: BTreeMap<usize, u64> = BTreeMap::new();
    let mut sig_a: BTreeMap<usize, u64> = BTreeMap::new();

    let mut tts: Vec<TT> = Vec::new();
    let mut own: Vec<Vec<usize>> = vec![Vec::new(); 4];
    let mut nvars_now = nvars0;
    let mut history: Vec<Resolved> = Vec::new();
    let mut canon: BTreeMap<TT, Ptr> = BTreeMap::new();
    let mut node_canon: BTreeMap<TT, usize> = BTreeMap::new();
    let mut shape_checked: BTreeSet<usize> = BTreeSet::new();
    let mut distinct_tts: BTreeSet<TT> = BTreeSet::new();
    let mut nonconst = false;

    let resolve = |arg: i64, caller: usize, own: &Vec<Vec<usize>>, n: usize| -> usize {
        let a = arg.unsigned_abs() as usize;
        let o = &own[caller & 3];
        if a & 1 == 1 && !o.is_empty() {
            o[o.len() - 1 - ((a >> 1) % o.len())]
        } else {
            n - 1 - ((a >> 1) % n)
        }
    };

    for (i, op) in plan.ops.iter().enumerate() {
        ctx.step = i;
        ctx.ops += 1;
        ctx.cur_prop = "C01";
        let caller = (op.c & 3) as usize;
        let n = sys.pool.len();
        let mut kind = op.k;
        // operations that need operands degrade to `var` while the pool is empty
        if n == 0 && !matches!(kind, K_VAR | K_NEWVAR | K_NEWLABEL | K_CONST) {
            kind = if nvars_now > 0 { K_VAR } else { K_CONST };
        }
        if matches!(kind, K_NEWVAR | K_NEWLABEL) && nvars_now >= tt::MAXV {
            kind = K_VAR;
        }
        if nvars_now == 0 && matches!(kind, K_VAR | K_COND | K_EXISTS | K_COMPOSE) {
            kind = K_CONST;
        }
        let mut r = Resolved {
            kind,
            x: [0; 3],
            label: 0,
            flag: op.a[3] & 1 == 1,
            bits: (0, 0),
            list_len: LIST_LENS[(op.a[3].unsigned_abs() as usize >> 1) % LIST_LENS.len()],
            result: None,
        };
        match kind {
            K_VAR => r.label = (op.a[0].unsigned_abs() as usize) % nvars_now,
            K_NEWVAR | K_NEWLABEL => r.label = nvars_now,
            K_CONST => {}
            K_NEG => r.x[0] = resolve(op.a[0], caller, &own, n),
            K_AND | K_OR | K_XOR | K_IFF | K_EQ => {
                r.x[0] = resolve(op.a[0], caller, &own, n);
                r.x[1] = resolve(op.a[1], caller, &own, n);
            }
            K_ITE | K_ANDLST | K_ORLST => {
                r.x[0] = resolve(op.a[0], caller, &own, n);
                r.x[1] = resolve(op.a[1], caller, &own, n);
                r.x[2] = resolve(op.a[2], caller, &own, n);
            }
            K_COND | K_EXISTS => {
                r.x[0] = resolve(op.a[0], caller, &own, n);
                r.label = (op.a[1].unsigned_abs() as usize) % nvars_now;
            }
            K_COMPOSE => {
                r.x[0] = resolve(op.a[0], caller, &own, n);
                r.x[1] = resolve(op.a[1], caller, &own, n);
                r.label = (op.a[2].unsigned_abs() as usize) % nvars_now;
            }
            K_CONDMODEL => {
                r.x[0] = resolve(op.a[0], caller, &own, n);
                let m = (1u32 << nvars_now) - 1;
                r.bits = ((op.a[1] as u32) & m, (op.a[2] as u32) & m);
            }
            K_REISSUE => {
                if history.is_empty() {
                    continue;
                }
                let j = (op.a[0].unsigned_abs() as usize) % history.len();
                let mut h = history[j];
                if h.result.is_none() {
                    continue;
                }
                // a re-issued new_var is a plain var of that label
                if matches!(h.kind, K_NEWVAR | K_NEWLABEL) {
                    h.kind = K_VAR;
                }
                let p = apply(sys.b, &h, &sys.pool, nvars_now).unwrap();
                let prev = sys.pool[h.result.unwrap()];
                ctx.ev(30 + K_REISSUE as u64, &[j as u64, addr(p) as u64, p.is_neg() as u64]);
                ctx.note(|| format!("[{i}] c{caller} reissue of step-result h{} -> {:#x}", h.result.unwrap(), addr(p)));
                ctx.check("C02", "bdd-reissue-pointer-equal", sys.b.eq(p, prev) && p == prev, || {
                    format!("re-issuing `{}` with the same operands returned {:?}@{:#x}, earlier result was {:?}@{:#x}",
                        KNAMES[h.kind as usize], pkey(p).1, addr(p), pkey(prev).1, addr(prev))
                })?;
                if let Some(t) = twin {
                    // keep the twin in step (results are not new handles)
                    let was = rsdd::verif::set_faults_enabled(false);
                    let _ = apply(t, &h, &twin_pool, nvars_now);
                    rsdd::verif::set_faults_enabled(was);
                }
                continue;
            }
            K_AUDIT => {
                let h = resolve(op.a[0], caller, &own, n);
                let t1 = walk_raw(sys.pool[h], &mut BTreeMap::new());
                ctx.ev(30 + K_AUDIT as u64, &[h as u64, tt::lo(t1), tt::hi(t1)]);
                ctx.check("C01", "bdd-denotation-drifted", t1 == tts[h], || {
                    format!("handle h{h} denoted {} when created and {} now", tt::show(tts[h]), tt::show(t1))
                })?;
                continue;
            }
            _ => continue,
        }

        if kind == K_EQ {
            ctx.cur_prop = "C02";
            let (pa, pb) = (sys.pool[r.x[0]], sys.pool[r.x[1]]);
            let e = sys.b.eq(pa, pb);
            ctx.ev(30 + K_EQ as u64, &[r.x[0] as u64, r.x[1] as u64, e as u64]);
            ctx.note(|| format!("[{i}] c{caller} eq(h{}, h{}) = {e}", r.x[0], r.x[1]));
            ctx.check("C02", "bdd-eq-iff-same-function", e == (tts[r.x[0]] == tts[r.x[1]]) && e == (pa == pb), || {
                format!("eq(h{}, h{}) = {e} but the truth tables are {} and {}", r.x[0], r.x[1], tt::show(tts[r.x[0]]), tt::show(tts[r.x[1]]))
            })?;
            history.push(r);
            continue;
        }

        // ---- execute against the real builder and the model
        let p = apply(sys.b, &r, &sys.pool, nvars_now).unwrap();
        if matches!(kind, K_NEWVAR | K_NEWLABEL) {
            nvars_now += 1;
        }
        let want = model_of(&r, &tts, nvars_now);
        let hidx = sys.pool.len();
        r.result = Some(hidx);
        history.push(r);
        sys.pool.push(p);
        tts.push(want);
        own[caller].push(hidx);
        if !p.is_const() {
            nonconst = true;
        }
        ctx.ev(30 + kind as u64, &[hidx as u64, addr(p) as u64, p.is_neg() as u64, tt::lo(want), tt::hi(want)]);
        ctx.note(|| {
            format!("[{i}] c{caller} h{hidx} = {}({}{}{}) -> {}{:#x}  tt={}",
                KNAMES[kind as usize],
                match kind { K_VAR | K_NEWVAR | K_NEWLABEL | K_COND | K_EXISTS | K_COMPOSE => format!("x{} ", r.label), _ => String::new() },
                match kind { K_VAR | K_NEWVAR | K_NEWLABEL | K_CONST | K_COND => format!("{} ", r.flag), _ => String::new() },
                match kind { K_VAR | K_NEWVAR | K_NEWLABEL | K_CONST => String::new(),
                             K_NEG | K_COND | K_EXISTS | K_CONDMODEL => format!("h{}", r.x[0]),
                             K_AND | K_OR | K_XOR | K_IFF | K_COMPOSE => format!("h{} h{}", r.x[0], r.x[1]),
                             _ => format!("h{} h{} h{}", r.x[0], r.x[1], r.x[2]) },
                if p.is_neg() { "~" } else { "" }, addr(p), tt::show(want))
        });

        // C01: both walkers must read back the model's table
        let t_raw = walk_raw(p, &mut BTreeMap::new());
        ctx.check("C01", "bdd-result-function", t_raw == want, || {
            format!("`{}` returned a diagram denoting {}, the definition gives {}", KNAMES[kind as usize], tt::show(t_raw), tt::show(want))
        })?;
        let t_acc = walk_acc(p, &mut BTreeMap::new());
        ctx.check("C01", "bdd-accessor-walk", t_acc == want, || {
            format!("reading `{}`'s result through low()/high() gives {}, expected {}", KNAMES[kind as usize], tt::show(t_acc), tt::show(want))
        })?;

        // C02: canonicity over every handle ever produced
        ctx.cur_prop = "C02";
        distinct_tts.insert(want);
        match canon.get(&want) {
            Some(q) => {
                let q = *q;
                ctx.check("C02", "bdd-equal-functions-same-pointer", sys.b.eq(p, q) && p == q, || {
                    format!("two diagrams denote {} but are different pointers ({}{:#x} vs {}{:#x})",
                        tt::show(want), if p.is_neg() { "~" } else { "" }, addr(p), if q.is_neg() { "~" } else { "" }, addr(q))
                })?;
            }
            None => {
                canon.insert(want, p);
                canon.insert(!want, p.neg());
            }
        }
        // C02: shape + sub-diagram canonicity of every reachable node (each node once)
        if ctx.wants("C02") {
            let mut nodes = BTreeMap::new();
            collect_nodes(p, &mut nodes);
            let cur_order = sys.b.order();
            let mut memo = BTreeMap::new();
            for (a, nd) in nodes.iter() {
                if shape_checked.insert(*a) {
                    check_node_shape(ctx, nd, cur_order)?;
                    let t = node_tt(nd, &mut memo);
                    let key = t.min(!t);
                    match node_canon.get(&key) {
                        Some(prev) if *prev != *a => {
                            let prev = *prev;
                            ctx.check("C02", "bdd-duplicate-subdiagram", false, || {
                                format!("distinct nodes {a:#x} and {prev:#x} denote the same (or complementary) function {}", tt::show(t))
                            })?;
                        }
                        Some(_) => {}
                        None => {
                            node_canon.insert(key, *a);
                        }
                    }
                }
            }
        }

        // C16: the fault-free, cache-everything twin must return the same canonical diagram
        if let Some(t) = twin {
            ctx.cur_prop = "C16";
            let was = rsdd::verif::set_faults_enabled(false);
            let q = apply(t, &r, &twin_pool, nvars_now - matches!(kind, K_NEWVAR | K_NEWLABEL) as usize).unwrap();
            rsdd::verif::set_faults_enabled(was);
            twin_pool.push(q);
            let (sb, sa) = (sig(p, &mut sig_b), sig(q, &mut sig_a));
            ctx.check("C16", "bdd-twin-same-canonical-diagram", sb == sa, || {
                format!("`{}`: builder under test returned structure {sb:#x} (tt {}), the cache-everything fault-free twin returned {sa:#x} (tt {})",
                    KNAMES[kind as usize], tt::show(t_raw), tt::show(walk_raw(q, &mut BTreeMap::new())))
            })?;
        }
    }

    // ---- end of run: audit everything
    ctx.step = plan.ops.len();
    ctx.cur_prop = "C01";
    for (h, p) in sys.pool.iter().enumerate() {
        let t1 = walk_raw(*p, &mut BTreeMap::new());
        ctx.check("C01", "bdd-denotation-drifted", t1 == tts[h], || {
            format!("at end of run handle h{h} denotes {} but denoted {} when created", tt::show(t1), tt::show(tts[h]))
        })?;
    }
    ctx.cur_prop = "C02";
    if ctx.wants("C02") {
        // every reachable node must be found again by a fresh lookup of its own triple
        let mut nodes = BTreeMap::new();
        for p in sys.pool.iter() {
            collect_nodes(*p, &mut nodes);
        }
        for (a, nd) in nodes.iter() {
            let back = sys.b.get_or_insert(BddNode::new(nd.var, nd.low, nd.high));
            ctx.check("C02", "bdd-node-relookup", matches!(back, BddPtr::Reg(_)) && addr(back) == *a, || {
                format!("looking up the triple of live node {a:#x} (var {}) again returned {:?}@{:#x}: the unique table lost it", nd.var.value(), pkey(back).1, addr(back))
            })?;
        }
        // no structural duplicates among all stored nodes
        let all = sys.b.verif_nodes();
        let mut triples: BTreeMap<(u64, (usize, u8), (usize, u8)), usize> = BTreeMap::new();
        for nd in all.iter() {
            let a = *nd as *const BddNode as usize;
            let k = (nd.var.value(), pkey(nd.low), pkey(nd.high));
            if let Some(prev) = triples.insert(k, a) {
                ctx.check("C02", "bdd-table-duplicate-triple", false, || {
                    format!("the unique table stores the triple (var {}, low {:x?}, high {:x?}) twice: {prev:#x} and {a:#x}", k.0, k.1, k.2)
                })?;
            }
        }
        ctx.count("nodes-in-table", all.len() as u64);
        ctx.evals += 1;
    }
    ctx.ev(99, &[sys.pool.len() as u64, distinct_tts.len() as u64]);
    ctx.nontrivial = nonconst;
    ctx.states.extend(distinct_tts.iter().map(|t| mix(tt::lo(*t), tt::hi(*t))));
    Ok(())
}

/// "Counter period" history: two functions f and g over disjoint variables (so they share no node); f is
/// conditioned a few times, then exactly M conditioning calls work on g only (a quiet phase for everything
/// that belongs to f), then f is conditioned / quantified / composed again with other arguments. M sits next to
/// the periods of narrow counters (2^8, 2^16) minus a small offset, so that some pair of calls on f is exactly
/// one period apart: whatever the builder stamps, counts or memoises per call comes back into play precisely
/// when a u8 / u16 counter has gone round.
pub fn period_ops(o: &mut Rng, c: &mut Rng) -> Vec<Op> {
    let mut ops: Vec<Op> = Vec::new();
    // every operation below pushes exactly one handle: pool size == number of operations so far
    let at = |ops: &Vec<Op>, j: usize| -> i64 { (2 * (ops.len() - 1 - j)) as i64 };
    for v in [0i64, 1, 2, 4, 5, 6] {
        ops.push(Op { c: 0, k: K_VAR, a: [v, 0, 0, 1] });
    }
    let bin = |o: &mut Rng| *o.pick(&[K_AND, K_OR, K_XOR, K_IFF]);
    // f = (x0 . x1) . x2 at index 7, g = (x4 . x5) . x6 at index 9
    let (k0, k1, k2, k3) = (bin(o), bin(o), bin(o), bin(o));
    let a = [at(&ops, 0), at(&ops, 1), 0, 0];
    ops.push(Op { c: 0, k: k0, a });
    let a = [at(&ops, 6), at(&ops, 2), 0, 0];
    ops.push(Op { c: 0, k: k1, a });
    let a = [at(&ops, 3), at(&ops, 4), 0, 0];
    ops.push(Op { c: 0, k: k2, a });
    let a = [at(&ops, 8), at(&ops, 5), 0, 0];
    ops.push(Op { c: 0, k: k3, a });
    let (f, g) = (7usize, 9usize);
    let (n1, n2) = (1 + o.below(4), 2 + o.below(5));
    for _ in 0..n1 {
        let a = [at(&ops, f), o.below(3) as i64, 0, o.below(2) as i64];
        ops.push(Op { c: 0, k: K_COND, a });
    }
    let period: u64 = if c.below(4) == 0 { 256 } else { 65_536 };
    let m = match c.below(8) {
        0 => period + 1,
        1 => period,
        _ => period - 1 - c.below(2 * (n1 + n2) + 2),
    };
    for _ in 0..m {
        let a = [at(&ops, g), 4 + o.below(3) as i64, 0, o.below(2) as i64];
        ops.push(Op { c: 0, k: K_COND, a });
    }
    for _ in 0..n2 {
        let k = *o.pick(&[K_COND, K_COND, K_EXISTS, K_COMPOSE]);
        let a = if k == K_COMPOSE { [at(&ops, f), at(&ops, 6), o.below(3) as i64, 0] } else { [at(&ops, f), o.below(3) as i64, 0, o.below(2) as i64] };
        ops.push(Op { c: 0, k, a });
    }
    ops
}

pub fn gen_operand(o: &mut Rng) -> i64 {
    let idx = match o.below(10) {
        0..=4 => o.below(4),
        5..=7 => o.below(16),
        _ => o.below(256),
    };
    ((idx << 1) | (o.below(4) != 0) as u64) as i64
}

impl World for BddWorld {
    fn name(&self) -> &'static str {
        "bdd"
    }
    fn properties(&self) -> &'static [&'static str] {
        &["C01", "C02", "C16"]
    }

    fn generate(&self, run_seed: u64, target: &str, thorough: bool) -> Plan {
        let mut cfg = Cfg::new();
        let mut c = Rng::stream(run_seed, "config");
        let mut o = Rng::stream(run_seed, "ops");
        let mut s = Rng::stream(run_seed, "schedule");
        let mut p = Rng::stream(run_seed, "placement");
        let mut au = Rng::stream(run_seed, "audit");
        let nvars0 = c.below(7) as i64; // 0..6, grows to 7 at run time
        cfg.insert("nvars0".into(), nvars0);
        cfg.insert("order_idx".into(), c.below(5040) as i64);
        // cache kind: lossy more often when the cache is what is being decided
        let lossy = if target == "C16" { c.below(8) != 0 } else { c.bool() };
        cfg.insert("cache".into(), lossy as i64);
        // knobs: tiny-to-shipped capacities (swarm: many runs leave them shipped)
        let caps = [0i64, 0, 1, 2, 3, 4, 5, 8, 16, 64];
        cfg.insert("table_cap".into(), *c.pick(&caps));
        let pows = [-1i64, 0, 1, 2, 3, 4];
        cfg.insert("lru_pow".into(), *c.pick(&pows));
        cfg.insert("place_off".into(), (p.below(4096) * 16) as i64);
        cfg.insert("place_pad_every".into(), p.below(5) as i64);
        cfg.insert("place_pad_bytes".into(), (p.below(8) * 16) as i64);
        let mut rates = [0u16; NUM_SITES];
        use rsdd::verif::Site::*;
        let rate_choices = [4u16, 32, 128];
        for site in [IteCacheForget, TableGrowNow, LruGrowNow, CondMemoForget] {
            if c.below(3) == 0 {
                rates[site as usize] = *c.pick(&rate_choices);
            }
        }
        let ncallers = 1 + c.below(4);
        // operation mix (swarm): each kind gets a random weight, some are switched off
        let mut w = [0u32; NKINDS];
        let base = [8, 3, 2, 5, 10, 8, 6, 6, 8, 6, 3, 5, 4, 2, 2, 4, 4, 4, 1];
        for k in 0..NKINDS {
            w[k] = if c.below(5) == 0 { 0 } else { base[k] * (1 + c.below(3) as u32) };
        }
        w[K_VAR as usize] = w[K_VAR as usize].max(4);
        // one run in 300 is a marathon: tens of thousands of operations on ONE builder (counters, statistics,
        // caches and tables that have seen many growths and overwrites)
        let marathon = c.below(300) == 0;
        let len = if marathon { 30_000 + o.below(70_000) } else { 10 + o.below(if thorough { 300 } else { 140 }) };
        if marathon && c.bool() {
            // half of the marathons are dominated by one family of calls (here: conditioning in all its forms), so
            // that per-call counters of that family go round more than 2^16 times
            for k in [K_COND, K_EXISTS, K_COMPOSE, K_CONDMODEL] {
                w[k as usize] = w[k as usize].max(4) * 8;
            }
        }
        let mut ops = Vec::new();
        // one run in 400 is a "counter period" history (see `period_ops`)
        let period = c.below(400) == 0;
        if period {
            cfg.insert("nvars".into(), 7);
            cfg.insert("period".into(), 1);
            ops = period_ops(&mut o, &mut c);
        }
        for _ in 0..(if period { 0 } else { len }) {
            let caller = s.below(ncallers) as u8;
            let mut k = o.weighted(&w) as u8;
            if k == K_AUDIT && au.below(2) == 0 {
                k = K_AUDIT;
            }
            let a = match k {
                K_VAR => [o.below(8) as i64, 0, 0, o.below(2) as i64],
                K_NEWVAR | K_NEWLABEL | K_CONST => [0, 0, 0, o.below(2) as i64],
                K_COND | K_EXISTS => [gen_operand(&mut o), o.below(8) as i64, 0, o.below(2) as i64],
                K_COMPOSE => [gen_operand(&mut o), gen_operand(&mut o), o.below(8) as i64, 0],
                K_CONDMODEL => [gen_operand(&mut o), o.below(128) as i64, o.below(128) as i64, o.below(2) as i64],
                K_REISSUE => [o.below(1 << 16) as i64, 0, 0, 0],
                K_AUDIT => [gen_operand(&mut au), 0, 0, 0],
                K_ANDLST | K_ORLST => [gen_operand(&mut o), gen_operand(&mut o), gen_operand(&mut o), (o.below(14) << 1) as i64],
                _ => [gen_operand(&mut o), gen_operand(&mut o), gen_operand(&mut o), 0],
            };
            ops.push(Op { c: caller, k, a });
        }
        Plan {
            world: "bdd".into(),
            target: target.into(),
            seed: run_seed,
            cfg,
            ops,
            faults: Faults::Random { seed: mix(run_seed, 79), rates },
        }
    }

    fn execute(&self, plan: &Plan, ctx: &mut Ctx) -> R {
        if plan.get("cache") != 0 {
            run::<LruIteTable<Ptr>>(plan, ctx)
        } else {
            run::<AllIteTable<Ptr>>(plan, ctx)
        }
    }

    fn simplify_cfg(&self, plan: &Plan) -> Vec<Cfg> {
        let mut v = Vec::new();
        for (k, val) in [
            ("place_off", 0),
            ("place_pad_every", 0),
            ("place_pad_bytes", 0),
            ("order_idx", 0),
            ("lru_pow", -1),
            ("table_cap", 0),
            ("cache", 0),
        ] {
            if plan.get_or(k, val) != val {
                let mut c = plan.cfg.clone();
                c.insert(k.into(), val);
                v.push(c);
            }
        }
        // bigger (less exotic) capacities
        for (k, alts) in [("table_cap", [64i64, 16, 8]), ("lru_pow", [4, 3, 2])] {
            let cur = plan.get_or(k, 0);
            for a in alts {
                if cur > 0 && a > cur || (k == "lru_pow" && cur >= 0 && a > cur) {
                    let mut c = plan.cfg.clone();
                    c.insert(k.into(), a);
                    v.push(c);
                }
            }
        }
        v
    }

    fn render_op(&self, op: &Op) -> String {
        format!("c{}: {} {:?}", op.c & 3, KNAMES.get(op.k as usize).unwrap_or(&"?"), op.a)
    }
}

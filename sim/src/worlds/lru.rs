//! `lru` world (C16, first sentence): the lossy cache driven directly with
//! adversarial (colliding) hashes, tiny capacities and forced growth.
//!
//! Reference model: map key -> last inserted value. The only thing demanded:
//! get(k) is None or Some(last value inserted under exactly k).

use crate::core::*;
use crate::rng::{mix, Rng};
use rsdd::util::lru::Lru;
use std::collections::BTreeMap;

pub struct LruWorld;

const K_INSERT: u8 = 0;
const K_GET: u8 = 1;
const K_BULK_INSERT: u8 = 2;

fn hash_of(mode: i64, hseed: u64, k: u64) -> u64 {
    match mode {
        0 => mix(hseed, k),
        // 2..8 distinct values
        1 => mix(hseed, k % (2 + hseed % 7)),
        // equal modulo every power of two up to 2^5, differing above
        2 => (k << 5) | (hseed & 31),
        // equal modulo 2^j for j<=3, differ at bit 3/4
        3 => (k << 3) | (hseed & 7),
        // all equal
        4 => hseed,
        // pointer-like
        5 => (0x6000_0000_0000u64 + 48 * k).wrapping_mul(0x517c_c1b7_2722_0a95),
        // scattered, but blind to the key's bits from 2^24 up: keys 2^24 apart share one hash (and so one slot at
        // every capacity) while staying different keys
        7 => mix(hseed, k & 0xff_ffff),
        _ => k,
    }
}

impl World for LruWorld {
    fn name(&self) -> &'static str {
        "lru"
    }
    fn properties(&self) -> &'static [&'static str] {
        &["C16"]
    }

    fn generate(&self, run_seed: u64, target: &str, thorough: bool) -> Plan {
        let mut cfg = Cfg::new();
        let mut c = Rng::stream(run_seed, "config");
        let mut o = Rng::stream(run_seed, "ops");
        let mut p = Rng::stream(run_seed, "placement");
        // one run in 400: the shipped initial size (2^16) filled far enough to grow several times
        let huge = c.below(if thorough { 100 } else { 400 }) == 0;
        cfg.insert("cap_pow".into(), if huge { 16 } else { c.below(6) as i64 });
        cfg.insert("hmode".into(), c.below(6) as i64);
        cfg.insert("hseed".into(), (c.next() >> 1) as i64);
        let small = c.bool();
        let nkeys = if huge { *c.pick(&[150_000i64, 400_000, 1_200_000, 1_600_000, 2_000_000]) } else { 1 + c.below(if small { 6 } else { 40 }) as i64 };
        cfg.insert("nkeys".into(), nkeys);
        cfg.insert("place_off".into(), (p.below(4096) * 16) as i64);
        let mut rates = [0u16; NUM_SITES];
        if c.below(3) == 0 {
            rates[rsdd::verif::Site::LruGrowNow as usize] = *c.pick(&[4u16, 32, 128]);
        }
        let ncallers = 1 + c.below(3);
        let len = if huge { 1200 } else { 1 + o.below(if thorough { 300 } else { 120 }) };
        let mut ops = Vec::new();
        if huge {
            cfg.insert("hmode".into(), *c.pick(&[0i64, 5, 7, 7]));
            ops.push(Op { c: 0, k: K_BULK_INSERT, a: [0, nkeys, 0, 0] });
        }
        for _ in 0..len {
            ops.push(Op {
                c: o.below(ncallers) as u8,
                k: if o.below(100) < 55 { K_INSERT } else { K_GET },
                a: [o.below((nkeys as u64).min(1 << 21)) as i64, 0, 0, 0],
            });
        }
        Plan {
            world: "lru".into(),
            target: target.into(),
            seed: run_seed,
            cfg,
            ops,
            faults: Faults::Random { seed: mix(run_seed, 78), rates },
        }
    }

    fn execute(&self, plan: &Plan, ctx: &mut Ctx) -> R {
        ctx.cur_prop = "C16";
        let mode = plan.get("hmode");
        let hseed = plan.get("hseed") as u64;
        let nkeys = plan.get("nkeys").max(1) as u64;
        let mut lru: Lru<u64, u64> = Lru::new(plan.get("cap_pow").clamp(0, 16) as usize);
        let mut last: BTreeMap<u64, u64> = BTreeMap::new();
        let mut next_val: u64 = 1000; // every written value is unique => every read is attributable
        let mut hits = 0u64;
        for (i, op) in plan.ops.iter().enumerate() {
            ctx.step = i;
            ctx.ops += 1;
            if op.k == K_BULK_INSERT {
                for k in (op.a[0].max(0) as u64)..(op.a[0].max(0) as u64 + op.a[1].max(0) as u64) {
                    let k = k % nkeys;
                    next_val += 1;
                    lru.insert(k, next_val, hash_of(mode, hseed, k));
                    last.insert(k, next_val);
                }
                ctx.ev(22, &[op.a[1] as u64]);
                continue;
            }
            // after a bulk fill the callers work on a few dozen hot keys spread over the whole key range,
            // so that overwrite-then-read of one key actually happens
            // (each hot key has three "shadow" keys 2^24, 2*2^24, 3*2^24 above it: under hash mode 7 they
            // share its slot at every capacity, so that a re-inserted hot key is evicted again after the growths)
            let k = if nkeys > 100_000 {
                let a0 = op.a[0] as u64;
                crate::rng::mix(a0 % 48, hseed) % nkeys + (((a0 / 48) % 4) << 24)
            } else {
                (op.a[0] as u64) % nkeys
            };
            let h = hash_of(mode, hseed, k);
            match op.k {
                K_INSERT => {
                    next_val += 1;
                    lru.insert(k, next_val, h);
                    last.insert(k, next_val);
                    ctx.ev(20, &[k, next_val]);
                }
                _ => {
                    let r = lru.get(k, h);
                    let want = last.get(&k).copied();
                    ctx.ev(21, &[k, r.unwrap_or(0)]);
                    if r.is_some() {
                        hits += 1;
                    }
                    ctx.check("C16", "lru-get-none-or-latest", r.is_none() || r == want, || {
                        format!("get(key {k}) returned {r:?}; the value most recently inserted under that key is {want:?}")
                    })?;
                }
            }
        }
        ctx.nontrivial = hits > 0 && last.len() >= 2;
        ctx.states.push(hits);
        Ok(())
    }

    fn simplify_cfg(&self, plan: &Plan) -> Vec<Cfg> {
        let mut v = Vec::new();
        for (k, val) in [("place_off", 0), ("hmode", 0)] {
            if plan.get_or(k, val) != val {
                let mut c = plan.cfg.clone();
                c.insert(k.into(), val);
                v.push(c);
            }
        }
        v
    }

    fn render_op(&self, op: &Op) -> String {
        match op.k {
            K_INSERT => format!("c{}: insert(key#{}, fresh value)", op.c, op.a[0]),
            K_BULK_INSERT => format!("c{}: insert keys {}..{} with fresh values", op.c, op.a[0], op.a[0] + op.a[1]),
            _ => format!("c{}: get(key#{})", op.c, op.a[0]),
        }
    }
}

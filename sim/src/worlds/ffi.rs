//! `ffi` world (C18): the real `extern "C"` symbols of rsdd (feature `ffi`)
//! driven by arbitrary call sequences, with a native
//! `RobddBuilder<AllIteTable>` twin receiving the corresponding Rust calls.
//! A panic inside an `extern "C"` function aborts the process; the supervisor
//! isolates the run and reports it.

use crate::core::*;
use crate::rng::{mix, Rng};
use crate::tt::{self, TT};
use crate::worlds::bdd::{self as wb, gen_operand, perm_from_index};
use crate::worlds::sat::{clause_of, gen_clause, K_CLAUSE};
use rsdd::builder::bdd::RobddBuilder;
use rsdd::builder::cache::AllIteTable;
use rsdd::builder::BottomUpBuilder;
use rsdd::constants::primes;
use rsdd::builder::decision_nnf::{DecisionNNFBuilder, StandardDecisionNNFBuilder};
use rsdd::builder::sdd::CompressionSddBuilder;
use rsdd::repr::{BddPtr, Cnf, DDNNFPtr, DTree, Literal, SddPtr, VTree, VarLabel, VarOrder, WmcParams};
use rsdd::serialize::BDDSerializer;
use rsdd::util::semirings::{Complex, FiniteField, Polynomial, RealSemiring, Semiring, MAX_COEFFS};
use std::collections::{BTreeMap, HashMap};
use std::ffi::{c_char, c_void, CStr};

type BP = BddPtr<'static>;
type Mgr = *mut c_void;

#[repr(C)]
struct Clause {
    vars: *mut Literal,
    len: usize,
}
#[repr(C)]
#[derive(Clone, Copy)]
struct WeightF64(f64, f64);
#[repr(C)]
#[derive(Clone, Copy)]
struct WeightComplex(Complex, Complex);
#[repr(C)]
struct WeightPoly {
    low: *mut Polynomial<RealSemiring>,
    high: *mut Polynomial<RealSemiring>,
}

#[allow(improper_ctypes)]
extern "C" {
    fn var_order_new(order: *const VarLabel, len: usize) -> *mut VarOrder;
    fn var_order_linear(num_vars: usize) -> *const VarOrder;
    fn literal_new(label: VarLabel, polarity: bool) -> Literal;
    fn cnf_new(clauses: *const Clause, len: usize) -> *mut Cnf;
    fn robdd_builder_all_table(order: *mut VarOrder) -> Mgr;
    fn mk_bdd_manager_default_order(num_vars: u64) -> Mgr;
    fn robdd_builder_compile_cnf(builder: Mgr, cnf: *mut Cnf) -> *mut BP;
    fn robdd_model_count(builder: Mgr, bdd: *mut BP) -> u64;
    fn free_bdd_manager(mgr: Mgr);
    fn bdd_new_label(builder: Mgr) -> u64;
    fn bdd_var(builder: Mgr, label: u64, polarity: bool) -> *mut BP;
    fn bdd_new_var(builder: Mgr, polarity: bool) -> *mut BP;
    fn bdd_ite(builder: Mgr, f: *mut BP, g: *mut BP, h: *mut BP) -> *mut BP;
    fn bdd_and(builder: Mgr, l: *mut BP, r: *mut BP) -> *mut BP;
    fn bdd_or(builder: Mgr, l: *mut BP, r: *mut BP) -> *mut BP;
    fn bdd_negate(builder: Mgr, b: *mut BP) -> *mut BP;
    fn bdd_compose(builder: Mgr, f: *mut BP, l: VarLabel, g: *mut BP) -> *mut BP;
    fn bdd_is_true(b: *mut BP) -> bool;
    fn bdd_is_false(b: *mut BP) -> bool;
    fn bdd_is_const(b: *mut BP) -> bool;
    fn bdd_count_nodes(b: *mut BP) -> usize;
    fn bdd_scratch(b: *mut BP, default: usize) -> usize;
    fn bdd_set_scratch(b: *mut BP, val: usize);
    fn bdd_clear_scratch(b: *mut BP);
    fn bdd_true(builder: Mgr) -> *mut BP;
    fn bdd_false(builder: Mgr) -> *mut BP;
    fn bdd_eq(builder: Mgr, l: *mut BP, r: *mut BP) -> bool;
    fn bdd_topvar(b: *mut BP) -> u64;
    fn bdd_low(b: *mut BP) -> *mut BP;
    fn bdd_high(b: *mut BP) -> *mut BP;
    fn print_bdd(b: *mut BP) -> *const c_char;
    fn bdd_num_recursive_calls(builder: Mgr) -> usize;
    fn bdd_to_json(b: *mut BP) -> *const c_char;
    fn bdd_wmc(b: *mut BP, wmc: *mut WmcParams<RealSemiring>) -> f64;
    fn bdd_wmc_complex(b: *mut BP, wmc: *mut WmcParams<Complex>) -> Complex;
    fn new_wmc_params_f64() -> *mut WmcParams<RealSemiring>;
    fn new_wmc_params_complex() -> *mut WmcParams<Complex>;
    fn wmc_param_f64_set_weight(w: *mut WmcParams<RealSemiring>, var: u64, low: f64, high: f64);
    fn wmc_param_complex_set_weight(w: *mut WmcParams<Complex>, var: u64, low: Complex, high: Complex);
    fn wmc_param_f64_var_weight(w: *mut WmcParams<RealSemiring>, var: u64) -> WeightF64;
    fn weight_f64_lo(w: WeightF64) -> f64;
    fn weight_f64_hi(w: WeightF64) -> f64;
    fn wmc_param_complex_var_weight(w: *mut WmcParams<Complex>, var: u64) -> WeightComplex;
    fn weight_complex_lo(w: WeightComplex) -> Complex;
    fn weight_complex_hi(w: WeightComplex) -> Complex;
    fn new_wmc_params_poly() -> *mut WmcParams<Polynomial<RealSemiring>>;
    fn wmc_param_poly_set_weight(w: *mut WmcParams<Polynomial<RealSemiring>>, var: u64, low: *const f64, low_len: usize, high: *const f64, high_len: usize);
    fn wmc_param_poly_var_weight(w: *mut WmcParams<Polynomial<RealSemiring>>, var: u64) -> WeightPoly;
    fn new_polynomial(coeffs: *const f64, len: usize) -> *mut Polynomial<RealSemiring>;
    fn destroy_polynomial(p: *mut Polynomial<RealSemiring>);
    fn polynomial_len(p: *mut Polynomial<RealSemiring>) -> usize;
    fn polynomial_get_coeffs(p: *mut Polynomial<RealSemiring>, buffer: *mut f64, max_len: usize) -> usize;
    fn bdd_wmc_poly(b: *mut BP, w: *mut WmcParams<Polynomial<RealSemiring>>) -> *mut Polynomial<RealSemiring>;
    fn cnf_from_dimacs(s: *const c_char) -> *const Cnf;
    fn cnf_min_fill_order(cnf: *mut Cnf) -> *mut VarOrder;
    fn dtree_from_cnf(cnf: *const Cnf, elim_order: *const VarOrder) -> *mut DTree;
    fn vtree_from_dtree(dtree: *const DTree) -> *mut VTree;
    fn sdd_builder_new(vtree: *mut VTree) -> *mut c_void;
    fn sdd_builder_compile_cnf(builder: *const c_void, cnf: *const Cnf) -> *mut SddPtr<'static>;
    fn sdd_wmc(sdd: *const SddPtr<'static>, wmc: *const WmcParams<RealSemiring>) -> f64;
    fn ddnnf_builder_new(order: *mut VarOrder) -> *mut c_void;
    fn ddnnf_builder_compile_cnf_topdown(builder: *const c_void, cnf: *const Cnf) -> *mut BP;
}

pub struct FfiWorld;

const F_VAR: u8 = 1;
const F_NEWVAR: u8 = 2;
const F_NEWLABEL: u8 = 3;
const F_CONST: u8 = 4;
const F_NEG: u8 = 5;
const F_AND: u8 = 6;
const F_OR: u8 = 7;
const F_ITE: u8 = 8;
const F_COMPOSE: u8 = 9;
const F_COMPILE: u8 = 10;
const F_EQ: u8 = 11;
const F_PREDS: u8 = 12;
const F_CHILDREN: u8 = 13;
const F_COUNT: u8 = 14;
const F_MODEL_COUNT: u8 = 15;
const F_WMC_REAL: u8 = 16;
const F_WMC_COMPLEX: u8 = 17;
const F_WMC_POLY: u8 = 18;
const F_JSON: u8 = 19;
const F_PRINT: u8 = 20;
const F_SET_WEIGHT: u8 = 21;
const F_SCRATCH: u8 = 22;
const F_PIPELINE: u8 = 23;
/// the manager is freed through the C interface and a new one of the same shape is created (the native twin too);
/// every handle dies with it, the weight tables live on
const F_RESTART: u8 = 24;
const NK: usize = 24;
const KN: [&str; NK] = [
    "clause", "bdd_var", "bdd_new_var", "bdd_new_label+bdd_var", "bdd_true/false", "bdd_negate", "bdd_and", "bdd_or", "bdd_ite", "bdd_compose",
    "robdd_builder_compile_cnf", "bdd_eq", "bdd_is_true/false/const", "bdd_topvar/low/high", "bdd_count_nodes", "robdd_model_count", "bdd_wmc",
    "bdd_wmc_complex", "bdd_wmc_poly", "bdd_to_json", "print_bdd", "wmc_param_*_set_weight", "bdd_(set_|clear_)scratch",
    "cnf_from_dimacs/min_fill_order/dtree/vtree/sdd_builder/ddnnf_builder pipeline",
];

fn resolve(arg: i64, n: usize) -> usize {
    n - 1 - ((arg.unsigned_abs() as usize >> 1) % n)
}

struct WeightTables {
    c_real: *mut WmcParams<RealSemiring>,
    c_complex: *mut WmcParams<Complex>,
    c_poly: *mut WmcParams<Polynomial<RealSemiring>>,
    n_real: WmcParams<RealSemiring>,
    n_complex: WmcParams<Complex>,
    n_poly: WmcParams<Polynomial<RealSemiring>>,
}

fn poly_from(c: &[f64]) -> Polynomial<RealSemiring> {
    let mut p = Polynomial::<RealSemiring>::zero();
    for (i, x) in c.iter().enumerate().take(MAX_COEFFS) {
        p.coefficients[i] = RealSemiring(*x);
    }
    p.len = c.len().min(MAX_COEFFS);
    p
}

/// set the weights of `var` through the C setters and on the native tables
fn set_weights(ctx: &mut Ctx, wt: &mut WeightTables, var: u64, r: &mut Rng) -> R {
    // one call in four uses the values shortcuts get wrong: zero, one, negative, equal low and high
    let sp = r.below(4) == 0;
    let same = sp && r.below(3) == 0;
    let re = |r: &mut Rng| if sp { *r.pick(&[0.0, 1.0, -1.0, -0.5, 2.0]) } else { r.below(9) as f64 / 4.0 };
    let (l, h) = (re(r), re(r));
    let h = if same { l } else { h };
    let cx = |r: &mut Rng| {
        if sp {
            *r.pick(&[Complex { re: 0.0, im: 0.0 }, Complex { re: 1.0, im: 0.0 }, Complex { re: 0.0, im: 1.0 }, Complex { re: -1.0, im: 0.0 }])
        } else {
            Complex { re: r.below(5) as f64 / 2.0, im: r.below(5) as f64 / 2.0 - 1.0 }
        }
    };
    let (cl, ch) = (cx(r), cx(r));
    let ch = if same { cl } else { ch };
    // mostly short polynomials; sometimes the boundary lengths around the 32-coefficient limit, or none
    let plen = |r: &mut Rng| -> u64 {
        match r.below(12) {
            0 => *r.pick(&[0u64, 31, 32, 33, 40]),
            _ => 1 + r.below(3),
        }
    };
    let (ll, lh) = (plen(r), plen(r));
    // one call in five passes two views of ONE coefficient table (same base pointer with different lengths, or
    // overlapping windows): a C caller is free to do that
    let shared = r.below(5) == 0;
    let table: Vec<f64> = (0..(ll.max(lh) + 1)).map(|_| r.below(5) as f64 / 2.0).collect();
    let off = if shared && r.below(3) == 0 { 1usize } else { 0 };
    let pl: Vec<f64> = if shared { table[..ll as usize].to_vec() } else { (0..ll).map(|_| r.below(5) as f64 / 2.0).collect() };
    let ph: Vec<f64> = if shared { table[off..off + lh as usize].to_vec() } else { (0..lh).map(|_| r.below(5) as f64 / 2.0).collect() };
    unsafe {
        wmc_param_f64_set_weight(wt.c_real, var, l, h);
        wmc_param_complex_set_weight(wt.c_complex, var, cl, ch);
        if shared {
            wmc_param_poly_set_weight(wt.c_poly, var, table.as_ptr(), pl.len(), table.as_ptr().add(off), ph.len());
        } else {
            wmc_param_poly_set_weight(wt.c_poly, var, pl.as_ptr(), pl.len(), ph.as_ptr(), ph.len());
        }
    }
    wt.n_real.set_weight(VarLabel::new(var), RealSemiring(l), RealSemiring(h));
    wt.n_complex.set_weight(VarLabel::new(var), cl, ch);
    wt.n_poly.set_weight(VarLabel::new(var), poly_from(&pl), poly_from(&ph));
    // read back through the C getters (skipped under Miri: the harness has to re-declare the private
    // #[repr(C)] return structs, which Miri does not accept as ABI-compatible with the originals)
    if cfg!(miri) {
        return Ok(());
    }
    unsafe {
        let w = wmc_param_f64_var_weight(wt.c_real, var);
        ctx.check("C18", "ffi-weight-readback", weight_f64_lo(w) == l && weight_f64_hi(w) == h, || format!("wmc_param_f64_var_weight(x{var}) = ({}, {}), set ({l}, {h})", weight_f64_lo(w), weight_f64_hi(w)))?;
        let w = wmc_param_complex_var_weight(wt.c_complex, var);
        ctx.check("C18", "ffi-weight-readback", weight_complex_lo(w) == cl && weight_complex_hi(w) == ch, || format!("wmc_param_complex_var_weight(x{var}) differs from what was set"))?;
        let w = wmc_param_poly_var_weight(wt.c_poly, var);
        let mut buf = [0f64; MAX_COEFFS];
        let k = polynomial_get_coeffs(w.low, buf.as_mut_ptr(), MAX_COEFFS);
        // the documented marshalling keeps at most MAX_COEFFS coefficients
        let (wl, wh) = (pl.len().min(MAX_COEFFS), ph.len().min(MAX_COEFFS));
        ctx.check("C18", "ffi-weight-readback", polynomial_len(w.low) == wl && k == wl && buf[..k] == pl[..wl], || {
            format!("wmc_param_poly_var_weight(x{var}).low = {:?} (len {}), set {:?}", &buf[..k], polynomial_len(w.low), pl)
        })?;
        let k = polynomial_get_coeffs(w.high, buf.as_mut_ptr(), MAX_COEFFS);
        ctx.check("C18", "ffi-weight-readback", polynomial_len(w.high) == wh && k == wh && buf[..k] == ph[..wh], || format!("wmc_param_poly_var_weight(x{var}).high = {:?}, set {:?}", &buf[..k], ph))?;
        // the free-standing polynomial constructor and a short read buffer
        let np = new_polynomial(pl.as_ptr(), pl.len());
        let short = wl / 2 + 1;
        let k2 = polynomial_get_coeffs(np, buf.as_mut_ptr(), short);
        ctx.check("C18", "ffi-polynomial-roundtrip", polynomial_len(np) == wl && k2 == wl.min(short) && buf[..k2] == pl[..k2], || {
            format!("new_polynomial({:?}) read back as {:?} (len {})", pl, &buf[..k2], polynomial_len(np))
        })?;
        destroy_polynomial(np);
    }
    Ok(())
}

fn run(plan: &Plan, ctx: &mut Ctx) -> R {
    ctx.cur_prop = "C18";
    let n0 = plan.get("nvars0").clamp(1, 40) as usize;
    // beyond 7 variables there is no truth-table model: the native twin alone is the reference
    let wide = n0 > 6;
    // ---- manager through the C interface, twin natively
    let make = || -> (Mgr, &'static RobddBuilder<'static, AllIteTable<BP>>) {
        if plan.get("custom_order") != 0 {
            let perm = perm_from_index(n0, plan.get("order_idx") as u64);
            let labels: Vec<VarLabel> = perm.iter().map(|v| VarLabel::new(*v as u64)).collect();
            let m = unsafe { robdd_builder_all_table(var_order_new(labels.as_ptr(), labels.len())) };
            (m, Box::leak(Box::new(RobddBuilder::new(VarOrder::new(&labels)))))
        } else if plan.get("custom_order") == 0 && plan.get_or("via_linear", 0) != 0 {
            let m = unsafe { robdd_builder_all_table(var_order_linear(n0) as *mut VarOrder) };
            (m, Box::leak(Box::new(RobddBuilder::new(VarOrder::linear_order(n0)))))
        } else {
            let m = unsafe { mk_bdd_manager_default_order(n0 as u64) };
            (m, Box::leak(Box::new(RobddBuilder::new(VarOrder::linear_order(n0)))))
        }
    };
    let (mut mgr, mut native) = make();
    let mut wr = Rng::new(plan.get("wseed") as u64);
    let mut wt = unsafe {
        WeightTables {
            c_real: new_wmc_params_f64(),
            c_complex: new_wmc_params_complex(),
            c_poly: new_wmc_params_poly(),
            n_real: WmcParams::new(HashMap::new()),
            n_complex: WmcParams::new(HashMap::new()),
            n_poly: WmcParams::new(HashMap::new()),
        }
    };
    for v in 0..n0 {
        set_weights(ctx, &mut wt, v as u64, &mut wr)?;
    }
    // CNFs
    let mut groups: Vec<Vec<Vec<(usize, bool)>>> = vec![Vec::new(); 3];
    for (j, op) in plan.ops.iter().filter(|o| o.k == K_CLAUSE).enumerate() {
        let c: Vec<(usize, bool)> = clause_of(op).into_iter().map(|(v, p)| (v % n0, p)).collect();
        groups[(j + op.c as usize) % 3].push(c);
    }

    let mut cp: Vec<*mut BP> = Vec::new(); // C-side handles
    // strings handed out earlier by bdd_to_json / print_bdd (the caller never frees them): they are values, a later call
    // must not change what an earlier call returned
    let mut strings: Vec<(*const c_char, String, &'static str)> = Vec::new();
    let mut np: Vec<BP> = Vec::new(); // native twin handles
    let mut model: Vec<TT> = Vec::new();
    let mut nvars = n0;
    let mut ncalls = 0u64;

    for (i, op) in plan.ops.iter().enumerate() {
        ctx.step = i;
        if op.k == K_CLAUSE {
            continue;
        }
        ctx.ops += 1;
        if op.k == F_RESTART {
            // the manager's lifetime ends: everything it allocated is released (and, in runs whose allocator re-uses
            // addresses, handed to whoever asks next); a new manager of the same shape takes over. The weight tables
            // are not touched: they are objects of their own and outlive any manager.
            unsafe { free_bdd_manager(mgr) };
            let (m2, n2) = make();
            mgr = m2;
            native = n2;
            cp.clear();
            np.clear();
            model.clear();
            nvars = n0;
            ctx.ev(300 + F_RESTART as u64, &[i as u64]);
            ctx.note(|| format!("[{i}] free_bdd_manager; new manager {:#x}", mgr as usize));
            ctx.count("manager-lifetimes-ended", 1);
            continue;
        }
        let n = cp.len();
        let mut kind = op.k;
        if n == 0 && !matches!(kind, F_VAR | F_NEWVAR | F_NEWLABEL | F_CONST | F_COMPILE | F_SET_WEIGHT) {
            kind = F_VAR;
        }
        if matches!(kind, F_NEWVAR | F_NEWLABEL) && nvars >= if wide { n0 + 6 } else { tt::MAXV } {
            kind = F_VAR;
        }
        let flag = op.a[3] & 1 == 1;
        let (x, y, z) = if n > 0 { (resolve(op.a[0], n), resolve(op.a[1], n), resolve(op.a[2], n)) } else { (0, 0, 0) };
        ncalls += 1;
        let push = |ctx: &mut Ctx, c: *mut BP, nat: BP, m: TT, what: &str, cp: &mut Vec<*mut BP>, np: &mut Vec<BP>, model: &mut Vec<TT>| -> R {
            let cv: BP = unsafe { *c };
            let tc = wb::walk_raw(cv, &mut BTreeMap::new());
            let tn = wb::walk_raw(nat, &mut BTreeMap::new());
            ctx.ev(300 + kind as u64, &[cp.len() as u64, wb::addr(cv) as u64, cv.is_neg() as u64, tt::lo(m), tt::hi(m)]);
            ctx.note(|| format!("[{i}] h{} = {what} -> C {}{:#x} / native {}{:#x}  tt={}", cp.len(), if cv.is_neg() { "~" } else { "" }, wb::addr(cv), if nat.is_neg() { "~" } else { "" }, wb::addr(nat), tt::show(m)));
            if !wide {
                ctx.check("C18", "ffi-result-differs-from-native", tc == tn, || {
                    format!("{what}: the C call returned a diagram denoting {}, the corresponding Rust operation returned one denoting {}", tt::show(tc), tt::show(tn))
                })?;
                ctx.check("C18", "ffi-result-function", tc == m, || format!("{what}: the C call returned a diagram denoting {}, expected {}", tt::show(tc), tt::show(m)))?;
            }
            let (sc, sn) = (wb::sig(cv, &mut BTreeMap::new()), wb::sig(nat, &mut BTreeMap::new()));
            ctx.check("C18", "ffi-result-differs-from-native", sc == sn, || format!("{what}: the C result and the native result have different structure ({sc:#x} vs {sn:#x})"))?;
            cp.push(c);
            np.push(nat);
            model.push(m);
            Ok(())
        };
        unsafe {
            match kind {
                F_VAR => {
                    let v = op.a[0].unsigned_abs() as usize % nvars;
                    push(ctx, bdd_var(mgr, v as u64, flag), native.var(VarLabel::new(v as u64), flag), tt::lit(v.min(tt::MAXV - 1), flag), "bdd_var", &mut cp, &mut np, &mut model)?;
                }
                F_NEWVAR => {
                    let c = bdd_new_var(mgr, flag);
                    let (lbl, p) = native.new_var(flag);
                    ctx.check("C18", "ffi-new-label", lbl.value_usize() == nvars, || format!("native new_var gave label {} at {} variables", lbl.value(), nvars))?;
                    set_weights(ctx, &mut wt, nvars as u64, &mut wr)?;
                    nvars += 1;
                    push(ctx, c, p, tt::lit((nvars - 1).min(tt::MAXV - 1), flag), "bdd_new_var", &mut cp, &mut np, &mut model)?;
                }
                F_NEWLABEL => {
                    let l = bdd_new_label(mgr);
                    let nl = native.new_label();
                    ctx.check("C18", "ffi-new-label", l == nl.value() && l as usize == nvars, || format!("bdd_new_label = {l}, native new_label = {}, expected {nvars}", nl.value()))?;
                    set_weights(ctx, &mut wt, nvars as u64, &mut wr)?;
                    nvars += 1;
                    push(ctx, bdd_var(mgr, l, flag), native.var(nl, flag), tt::lit((nvars - 1).min(tt::MAXV - 1), flag), "bdd_new_label+bdd_var", &mut cp, &mut np, &mut model)?;
                }
                F_CONST => {
                    if flag {
                        push(ctx, bdd_true(mgr), native.true_ptr(), tt::TRUE, "bdd_true", &mut cp, &mut np, &mut model)?;
                    } else {
                        push(ctx, bdd_false(mgr), native.false_ptr(), tt::FALSE, "bdd_false", &mut cp, &mut np, &mut model)?;
                    }
                }
                F_NEG => push(ctx, bdd_negate(mgr, cp[x]), native.negate(np[x]), !model[x], "bdd_negate", &mut cp, &mut np, &mut model)?,
                F_AND => push(ctx, bdd_and(mgr, cp[x], cp[y]), native.and(np[x], np[y]), model[x] & model[y], "bdd_and", &mut cp, &mut np, &mut model)?,
                F_OR => push(ctx, bdd_or(mgr, cp[x], cp[y]), native.or(np[x], np[y]), model[x] | model[y], "bdd_or", &mut cp, &mut np, &mut model)?,
                F_ITE => push(ctx, bdd_ite(mgr, cp[x], cp[y], cp[z]), native.ite(np[x], np[y], np[z]), tt::ite(model[x], model[y], model[z]), "bdd_ite", &mut cp, &mut np, &mut model)?,
                F_COMPOSE => {
                    let v = op.a[2].unsigned_abs() as usize % nvars;
                    let l = VarLabel::new(v as u64);
                    push(ctx, bdd_compose(mgr, cp[x], l, cp[y]), native.compose(np[x], l, np[y]), tt::compose_doc(model[x], v.min(tt::MAXV - 1), model[y]), "bdd_compose", &mut cp, &mut np, &mut model)?;
                }
                F_COMPILE => {
                    let g = &groups[op.a[0].unsigned_abs() as usize % 3];
                    // build the CNF through the C constructors
                    let mut lits: Vec<Vec<Literal>> = g.iter().map(|c| c.iter().map(|(v, p)| literal_new(VarLabel::new(*v as u64), *p)).collect()).collect();
                    let cls: Vec<Clause> = lits.iter_mut().map(|c| Clause { vars: c.as_mut_ptr(), len: c.len() }).collect();
                    let ccnf = cnf_new(cls.as_ptr(), cls.len());
                    let ncnf = Cnf::new(&g.iter().map(|c| c.iter().map(|(v, p)| Literal::new(VarLabel::new(*v as u64), *p)).collect()).collect::<Vec<Vec<Literal>>>());
                    ctx.check("C18", "ffi-cnf-new", *ccnf == ncnf, || "cnf_new built a different CNF than Cnf::new".to_string())?;
                    let mut m = tt::TRUE;
                    for c in g {
                        let mut ct = tt::FALSE;
                        for (v, p) in c {
                            ct |= tt::lit((*v).min(tt::MAXV - 1), *p);
                        }
                        m &= ct;
                    }
                    push(ctx, robdd_builder_compile_cnf(mgr, ccnf), native.compile_cnf(&ncnf), m, "robdd_builder_compile_cnf", &mut cp, &mut np, &mut model)?;
                }
                F_EQ => {
                    let (e, ne) = (bdd_eq(mgr, cp[x], cp[y]), native.eq(np[x], np[y]));
                    ctx.ev(300 + kind as u64, &[x as u64, y as u64, e as u64]);
                    ctx.check("C18", "ffi-eq-differs-from-native", e == ne && (wide || e == (model[x] == model[y])), || format!("bdd_eq(h{x}, h{y}) = {e}, native eq = {ne}, same function = {}", model[x] == model[y]))?;
                }
                F_PREDS => {
                    let (a, b, c) = (bdd_is_true(cp[x]), bdd_is_false(cp[x]), bdd_is_const(cp[x]));
                    ctx.ev(300 + kind as u64, &[x as u64, a as u64, b as u64, c as u64]);
                    ctx.check("C18", "ffi-predicates", a == np[x].is_true() && b == np[x].is_false() && c == np[x].is_const() && (wide || (a == (model[x] == tt::TRUE) && b == (model[x] == tt::FALSE))), || {
                        format!("bdd_is_true/false/const(h{x}) = {a}/{b}/{c}, native {}/{}/{}", np[x].is_true(), np[x].is_false(), np[x].is_const())
                    })?;
                }
                F_CHILDREN => {
                    let tv = bdd_topvar(cp[x]);
                    let nv = np[x].var_safe().map(|v| v.value()).unwrap_or(0);
                    ctx.check("C18", "ffi-topvar", tv == nv, || format!("bdd_topvar(h{x}) = {tv}, native top variable = {nv}"))?;
                    if !np[x].is_const() {
                        // low/high are only defined on decision nodes
                        let (cl, ch) = (bdd_low(cp[x]), bdd_high(cp[x]));
                        let (nl, nh) = (np[x].low(), np[x].high());
                        let v = (tv as usize).min(tt::MAXV - 1);
                        let ml = tt::restrict(model[x], v, false);
                        let mh = tt::restrict(model[x], v, true);
                        if flag {
                            push(ctx, cl, nl, ml, "bdd_low", &mut cp, &mut np, &mut model)?;
                            push(ctx, ch, nh, mh, "bdd_high", &mut cp, &mut np, &mut model)?;
                        } else {
                            push(ctx, ch, nh, mh, "bdd_high", &mut cp, &mut np, &mut model)?;
                        }
                    }
                }
                F_COUNT => {
                    let (c, nn) = (bdd_count_nodes(cp[x]), np[x].count_nodes());
                    ctx.ev(300 + kind as u64, &[x as u64, c as u64]);
                    ctx.check("C18", "ffi-count-nodes", c == nn, || format!("bdd_count_nodes(h{x}) = {c}, native count_nodes = {nn}"))?;
                }
                F_MODEL_COUNT => {
                    let c = robdd_model_count(mgr, cp[x]);
                    // the corresponding Rust operation: smooth over all variables, count in the 64-bit field with unit weights
                    let k = native.num_vars();
                    let sm = native.smooth(np[x], k);
                    let unit: WmcParams<FiniteField<{ primes::U64_LARGEST }>> =
                        WmcParams::new(HashMap::from_iter((0..k as u64).map(|v| (VarLabel::new(v), (FiniteField::one(), FiniteField::one())))));
                    let nn = sm.unsmoothed_wmc(&unit).value() as u64;
                    ctx.ev(300 + kind as u64, &[x as u64, c]);
                    ctx.check("C18", "ffi-model-count", c == nn, || format!("robdd_model_count(h{x}) = {c}, the native smooth+count gives {nn}"))?;
                }
                F_WMC_REAL => {
                    let (c, nn) = (bdd_wmc(cp[x], wt.c_real), np[x].unsmoothed_wmc(&wt.n_real).0);
                    ctx.ev(300 + kind as u64, &[x as u64, c.to_bits()]);
                    ctx.check("C18", "ffi-wmc", c.to_bits() == nn.to_bits(), || format!("bdd_wmc(h{x}) = {c}, native unsmoothed_wmc = {nn}"))?;
                }
                F_WMC_COMPLEX => {
                    let (c, nn) = (bdd_wmc_complex(cp[x], wt.c_complex), np[x].unsmoothed_wmc(&wt.n_complex));
                    ctx.ev(300 + kind as u64, &[x as u64, c.re.to_bits(), c.im.to_bits()]);
                    ctx.check("C18", "ffi-wmc", c.re.to_bits() == nn.re.to_bits() && c.im.to_bits() == nn.im.to_bits(), || format!("bdd_wmc_complex(h{x}) = {c}, native = {nn}"))?;
                }
                F_WMC_POLY => {
                    let c = bdd_wmc_poly(cp[x], wt.c_poly);
                    let nn = np[x].unsmoothed_wmc(&wt.n_poly);
                    let mut buf = [0f64; MAX_COEFFS];
                    let k = polynomial_get_coeffs(c, buf.as_mut_ptr(), MAX_COEFFS);
                    let want: Vec<f64> = (0..nn.len).map(|j| nn.coefficients[j].0).collect();
                    ctx.ev(300 + kind as u64, &[x as u64, k as u64, buf[0].to_bits()]);
                    ctx.check("C18", "ffi-wmc", polynomial_len(c) == nn.len && buf[..k] == want[..], || format!("bdd_wmc_poly(h{x}) = {:?} (len {}), native = {:?}", &buf[..k], polynomial_len(c), want))?;
                }
                F_JSON => {
                    let c = CStr::from_ptr(bdd_to_json(cp[x])).to_string_lossy().into_owned();
                    let nn = serde_json::to_string(&BDDSerializer::from_bdd(np[x])).unwrap();
                    ctx.ev(300 + kind as u64, &[x as u64, crate::rng::str_hash(&c)]);
                    ctx.check("C18", "ffi-json", c == nn, || format!("bdd_to_json(h{x}) = {c}, native serialisation = {nn}"))?;
                    let ptr = bdd_to_json(cp[x]);
                    for (p0, s0, what) in strings.iter().rev().take(4) {
                        let now = CStr::from_ptr(*p0).to_string_lossy().into_owned();
                        ctx.check("C18", "ffi-returned-string-changed-later", now == *s0, || format!("a string returned earlier by {what} read {s0} then and reads {now} after a later bdd_to_json"))?;
                    }
                    strings.push((ptr, c, "bdd_to_json"));
                }
                F_PRINT => {
                    let c = CStr::from_ptr(print_bdd(cp[x])).to_string_lossy().into_owned();
                    let nn = np[x].print_bdd();
                    ctx.ev(300 + kind as u64, &[x as u64, crate::rng::str_hash(&c)]);
                    ctx.check("C18", "ffi-print", c == nn, || format!("print_bdd(h{x}) = {c}, native = {nn}"))?;
                    let ptr = print_bdd(cp[x]);
                    for (p0, s0, what) in strings.iter().rev().take(4) {
                        let now = CStr::from_ptr(*p0).to_string_lossy().into_owned();
                        ctx.check("C18", "ffi-returned-string-changed-later", now == *s0, || format!("a string returned earlier by {what} read {s0} then and reads {now} after a later print_bdd"))?;
                    }
                    strings.push((ptr, c, "print_bdd"));
                }
                F_SET_WEIGHT => {
                    let v = op.a[0].unsigned_abs() as usize % nvars;
                    set_weights(ctx, &mut wt, v as u64, &mut wr)?;
                }
                F_PIPELINE => {
                    // CNF text -> min-fill order -> dtree -> vtree -> SDD compile + count, and top-down compile + count
                    let g: Vec<Vec<(usize, bool)>> = groups[op.a[0].unsigned_abs() as usize % 3].iter().filter(|c| !c.is_empty()).cloned().collect();
                    if g.is_empty() {
                        continue;
                    }
                    let nv = g.iter().flat_map(|c| c.iter().map(|(v, _)| v + 1)).max().unwrap();
                    let mut text = format!("p cnf {} {}\n", nv, g.len());
                    for c in g.iter() {
                        for (v, p) in c {
                            text.push_str(&format!("{}{} ", if *p { "" } else { "-" }, v + 1));
                        }
                        text.push_str("0\n");
                    }
                    // the native sequence first; if it panics the C wrapper would do the same (that would be C14/C05, not C18)
                    let native_side = std::panic::catch_unwind(|| {
                        let cnf = Cnf::from_dimacs(&text);
                        let ord = cnf.min_fill_order();
                        let dt = DTree::from_cnf(&cnf, &ord);
                        let vt = VTree::from_dtree(&dt);
                        (cnf, ord, dt, vt)
                    });
                    let (ncnf, nord, ndt, nvt) = match native_side {
                        Ok(x) => x,
                        Err(_) => {
                            ctx.count("pipeline-native-sequence-panicked", 1);
                            continue;
                        }
                    };
                    let ctext = std::ffi::CString::new(text.clone()).unwrap();
                    let ccnf = cnf_from_dimacs(ctext.as_ptr()) as *mut Cnf;
                    ctx.check("C18", "ffi-cnf-from-dimacs", *ccnf == ncnf, || format!("cnf_from_dimacs differs from Cnf::from_dimacs on {text:?}"))?;
                    let cord = cnf_min_fill_order(ccnf);
                    ctx.check("C18", "ffi-min-fill-order", format!("{}", *cord) == format!("{}", nord), || format!("cnf_min_fill_order = {}, native = {}", *cord, nord))?;
                    let cdt = dtree_from_cnf(ccnf, cord);
                    ctx.check("C18", "ffi-dtree", format!("{:?}", *cdt) == format!("{:?}", ndt), || "dtree_from_cnf differs from DTree::from_cnf".to_string())?;
                    let cvt = vtree_from_dtree(cdt);
                    ctx.check("C18", "ffi-vtree", cvt.is_null() == nvt.is_none() && (cvt.is_null() || Some(&*cvt) == nvt.as_ref()), || "vtree_from_dtree differs from VTree::from_dtree".to_string())?;
                    ctx.ev(300 + kind as u64, &[g.len() as u64, nv as u64, cvt.is_null() as u64]);
                    if let Some(nvt) = nvt {
                        let native_sdd = std::panic::catch_unwind(|| {
                            let nb: &'static CompressionSddBuilder<'static> = Box::leak(Box::new(CompressionSddBuilder::new(nvt.clone())));
                            let ns = nb.compile_cnf(&ncnf);
                            (ns, ns.unsmoothed_wmc(&wt.n_real).0)
                        });
                        if let Ok((ns, nw)) = native_sdd {
                            let cb = sdd_builder_new(cvt);
                            let cs = sdd_builder_compile_cnf(cb, ccnf);
                            let cw = sdd_wmc(cs, wt.c_real);
                            let (t1, t2) = (crate::worlds::sdd::walk(*cs, &mut BTreeMap::new()), crate::worlds::sdd::walk(ns, &mut BTreeMap::new()));
                            ctx.check("C18", "ffi-sdd-compile", t1 == t2 && crate::worlds::sdd::sig(*cs, &mut BTreeMap::new()) == crate::worlds::sdd::sig(ns, &mut BTreeMap::new()), || {
                                format!("sdd_builder_compile_cnf returned an SDD denoting {}, native compile_cnf one denoting {}", tt::show(t1), tt::show(t2))
                            })?;
                            ctx.check("C18", "ffi-wmc", cw.to_bits() == nw.to_bits(), || format!("sdd_wmc = {cw}, native unsmoothed_wmc = {nw}"))?;
                        } else {
                            ctx.count("pipeline-native-sequence-panicked", 1);
                        }
                    }
                    // top-down
                    let native_td = std::panic::catch_unwind(|| {
                        let nb: &'static StandardDecisionNNFBuilder<'static> = Box::leak(Box::new(StandardDecisionNNFBuilder::new(ncnf.min_fill_order())));
                        let np_ = nb.compile_cnf_topdown(&ncnf);
                        (np_, np_.unsmoothed_wmc(&wt.n_real).0)
                    });
                    if let Ok((ntd, nw)) = native_td {
                        let cb = ddnnf_builder_new(cnf_min_fill_order(ccnf));
                        let ctd = ddnnf_builder_compile_cnf_topdown(cb, ccnf);
                        let cw = bdd_wmc(ctd, wt.c_real);
                        let (t1, t2) = (wb::walk_raw(*ctd, &mut BTreeMap::new()), wb::walk_raw(ntd, &mut BTreeMap::new()));
                        ctx.check("C18", "ffi-ddnnf-compile", t1 == t2 && wb::sig(*ctd, &mut BTreeMap::new()) == wb::sig(ntd, &mut BTreeMap::new()), || {
                            format!("ddnnf_builder_compile_cnf_topdown returned a diagram denoting {}, the native one denotes {}", tt::show(t1), tt::show(t2))
                        })?;
                        ctx.check("C18", "ffi-wmc", cw.to_bits() == nw.to_bits(), || format!("bdd_wmc of the top-down result = {cw}, native = {nw}"))?;
                    } else {
                        ctx.count("pipeline-native-sequence-panicked", 1);
                    }
                }
                F_SCRATCH => {
                    if !np[x].is_const() {
                        let val = op.a[1].unsigned_abs() as usize;
                        let before = bdd_scratch(cp[x], 7777);
                        bdd_set_scratch(cp[x], val);
                        let during = bdd_scratch(cp[x], 7777);
                        bdd_clear_scratch(cp[x]);
                        let after = bdd_scratch(cp[x], 7777);
                        np[x].set_scratch::<usize>(val);
                        let nd = np[x].scratch::<usize>().unwrap_or(7777);
                        np[x].clear_scratch();
                        ctx.check("C18", "ffi-scratch", before == 7777 && during == val && during == nd && after == 7777, || {
                            format!("bdd_scratch(h{x}) before/after set/after clear = {before}/{during}/{after}, native during = {nd}")
                        })?;
                        // a value parked on a strict descendant while the enclosing diagram is counted (the root's own
                        // slot stays clear, as count_nodes requires): the C sequence and the native one must agree
                        if op.a[2] & 1 == 1 {
                            let hi = op.a[2] & 2 == 2;
                            let (cc, nc) = if hi { (bdd_high(cp[x]), np[x].high()) } else { (bdd_low(cp[x]), np[x].low()) };
                            if !nc.is_const() {
                                bdd_set_scratch(cc, val);
                                nc.set_scratch::<usize>(val);
                                let (c, nn) = (bdd_count_nodes(cp[x]), np[x].count_nodes());
                                bdd_clear_scratch(cc);
                                nc.clear_scratch();
                                bdd_clear_scratch(cp[x]);
                                np[x].clear_scratch();
                                ctx.check("C18", "ffi-count-nodes", c == nn, || format!("with a scratch value parked on its {} child, bdd_count_nodes(h{x}) = {c}, the native sequence gives {nn}", if hi { "high" } else { "low" }))?;
                            }
                        }
                    }
                }
                _ => {}
            }
        }
        let _ = bdd_num_recursive_calls;
    }
    ctx.count("c-api-calls", ncalls);
    ctx.nontrivial = np.iter().any(|p| !p.is_const()) && ncalls >= 3;
    ctx.states.extend(model.iter().map(|t| mix(tt::lo(*t), tt::hi(*t))));
    Ok(())
}

impl World for FfiWorld {
    fn name(&self) -> &'static str {
        "ffi"
    }
    fn properties(&self) -> &'static [&'static str] {
        &["C18"]
    }

    fn generate(&self, run_seed: u64, target: &str, thorough: bool) -> Plan {
        let mut cfg = Cfg::new();
        let mut c = Rng::stream(run_seed, "config");
        let mut o = Rng::stream(run_seed, "ops");
        let mut p = Rng::stream(run_seed, "placement");
        // one run in 400: 20-22 variables (model counts beyond 10^6), native twin as the only reference
        // (robdd_model_count smooths first, and rsdd's smoothing is exponential in the number of levels below a constant:
        // 20-22 variables is the most a run can afford, and such runs are rare)
        let n0 = if c.below(400) == 0 { 20 + c.below(3) } else { 1 + c.below(6) };
        cfg.insert("nvars0".into(), n0 as i64);
        cfg.insert("custom_order".into(), (c.below(3) == 0) as i64);
        cfg.insert("via_linear".into(), c.below(2) as i64);
        cfg.insert("order_idx".into(), c.below(720) as i64);
        cfg.insert("wseed".into(), (c.next() >> 2) as i64);
        cfg.insert("table_cap".into(), *c.pick(&[4i64, 8, 16, 64, 64, 256]));
        cfg.insert("place_off".into(), (p.below(4096) * 16) as i64);
        let mut rates = [0u16; NUM_SITES];
        if c.below(3) == 0 {
            rates[rsdd::verif::Site::IteCacheForget as usize] = 16;
        }
        if c.below(3) == 0 {
            rates[rsdd::verif::Site::TableGrowNow as usize] = 8;
        }
        let mut ops = Vec::new();
        for _ in 0..c.below(8) {
            ops.push(Op { c: o.below(3) as u8, k: K_CLAUSE, a: gen_clause(&mut o, n0) });
        }
        let mut w = [0u32; NK];
        let base = [0u32, 8, 2, 2, 2, 5, 9, 8, 7, 3, 2, 4, 3, 4, 4, 4, 5, 4, 4, 3, 3, 2, 2, 2];
        for k in 1..NK {
            w[k] = if c.below(5) == 0 { 0 } else { base[k] * (1 + c.below(3) as u32) };
        }
        w[F_VAR as usize] = w[F_VAR as usize].max(4);
        // one small-manager run in 300 is a marathon: thousands of calls on ONE manager, dominated by counting queries on
        // ever new roots, with operands also taken from far back in the history (whatever the wrapper keeps per manager,
        // per root or per call has to survive thousands of distinct keys and their later repetition)
        let marathon = n0 <= 6 && c.below(300) == 0;
        if marathon {
            cfg.insert("marathon".into(), 1);
            let mut mw = [0u32; NK];
            for (k, x) in [(F_VAR, 4), (F_NEG, 3), (F_AND, 8), (F_OR, 8), (F_ITE, 6), (F_EQ, 1), (F_COUNT, 3), (F_MODEL_COUNT, 24), (F_WMC_REAL, 4), (F_WMC_COMPLEX, 1), (F_CHILDREN, 1)] {
                mw[k as usize] = x;
            }
            // blocks: a fresh root (the disjunction of two random cubes of 2-4 literals) is built and counted; now and then
            // a root from anywhere in the history is counted again, or some other query / operation is issued
            let at = |i: u64| (i << 1) as i64;
            let cube = |o: &mut Rng, ops: &mut Vec<Op>| -> u64 {
                let k = 2 + o.below(3);
                ops.push(Op { c: 0, k: F_VAR, a: [o.below(8) as i64, 0, 0, o.below(2) as i64] });
                for _ in 1..k {
                    ops.push(Op { c: 0, k: F_VAR, a: [o.below(8) as i64, 0, 0, o.below(2) as i64] });
                    ops.push(Op { c: 0, k: F_AND, a: [at(0), at(1), 0, 0] });
                }
                1 + 2 * (k - 1)
            };
            for _ in 0..(1100 + o.below(900)) {
                cube(&mut o, &mut ops);
                let pushed = cube(&mut o, &mut ops);
                ops.push(Op { c: 0, k: F_OR, a: [at(0), at(pushed), 0, 0] });
                ops.push(Op { c: 0, k: F_MODEL_COUNT, a: [at(0), 0, 0, 0] });
                if o.below(2) == 0 {
                    ops.push(Op { c: 0, k: F_MODEL_COUNT, a: [at(o.below(40_000)), 0, 0, 0] });
                }
                if o.below(4) == 0 {
                    let k = o.weighted(&mw) as u8;
                    let arg = |o: &mut Rng| if o.below(3) == 0 { at(o.below(40_000)) } else { gen_operand(o) };
                    ops.push(Op { c: 0, k, a: [arg(&mut o), arg(&mut o), arg(&mut o), o.below(2) as i64] });
                }
            }
        }
        // one small-manager run in 60 is a "lifetimes" run: the allocator re-uses freed addresses, and the history is cut
        // into two to four segments by free_bdd_manager + a new manager of the same shape. Every segment issues the same
        // *kinds* of calls in the same order (so that the new manager's nodes land where the dead one's were) with
        // freshly drawn variables, polarities and operands (so that they are other functions), and no weight is written
        // after the first segment: whatever the wrapper remembers by address has to notice that the object died.
        let lifetimes = !marathon && n0 <= 6 && c.below(60) == 0;
        if lifetimes {
            cfg.insert("reuse".into(), 1);
            cfg.insert("lifetimes".into(), 1);
            // (no forgetting / early-growth faults here: they would make the segments' allocation patterns differ)
            rates = [0u16; NUM_SITES];
            let kinds: Vec<u8> = (0..(8 + o.below(30)))
                .map(|j| if j < 2 { F_VAR } else { *o.pick(&[F_VAR, F_VAR, F_NEG, F_AND, F_AND, F_OR, F_OR, F_ITE, F_WMC_REAL, F_WMC_REAL, F_WMC_COMPLEX, F_MODEL_COUNT, F_COUNT, F_EQ, F_CHILDREN, F_JSON]) })
                .collect();
            for seg in 0..(2 + o.below(3)) {
                if seg > 0 {
                    ops.push(Op { c: 0, k: F_RESTART, a: [0; 4] });
                }
                for k in kinds.iter() {
                    ops.push(Op { c: 0, k: *k, a: [gen_operand(&mut o), gen_operand(&mut o), gen_operand(&mut o), o.below(2) as i64] });
                }
            }
        }
        let len = if marathon || lifetimes { 0 } else { 5 + o.below(if thorough { 120 } else { 60 }) };
        for _ in 0..len {
            let k = o.weighted(&w) as u8;
            ops.push(Op { c: 0, k, a: [gen_operand(&mut o), gen_operand(&mut o), gen_operand(&mut o), o.below(2) as i64] });
        }
        Plan {
            world: "ffi".into(),
            target: target.into(),
            seed: run_seed,
            cfg,
            ops,
            faults: Faults::Random { seed: mix(run_seed, 85), rates },
        }
    }

    fn execute(&self, plan: &Plan, ctx: &mut Ctx) -> R {
        run(plan, ctx)
    }

    fn simplify_cfg(&self, plan: &Plan) -> Vec<Cfg> {
        let mut v = Vec::new();
        for (k, val) in [("place_off", 0), ("custom_order", 0), ("via_linear", 0), ("table_cap", 64)] {
            if plan.get_or(k, val) != val {
                let mut c = plan.cfg.clone();
                c.insert(k.into(), val);
                v.push(c);
            }
        }
        v
    }

    fn render_op(&self, op: &Op) -> String {
        if op.k == K_CLAUSE {
            format!("clause (cnf#{}) {:?}", op.c, clause_of(op))
        } else {
            format!("{} {:?}", if op.k == F_RESTART { &"free_bdd_manager + new manager" } else { KN.get(op.k as usize).unwrap_or(&"?") }, op.a)
        }
    }
}

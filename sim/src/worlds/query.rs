//! `query` world (C10): queries of different result types interleaved by
//! several logical callers over diagrams that share nodes; the expected answer
//! is the answer of the same query on a freshly built copy of the diagram in a
//! brand-new builder; after every public call every scratch slot of every
//! node of the builder must be empty.
//!
//! Variants: BDD (RobddBuilder), SDD (CompressionSddBuilder), top-down
//! (StandardDecisionNNFBuilder). The oracle deliberately does not judge
//! whether the fresh answer is *right* (that would be C07/C08/C12).

use crate::core::*;
use crate::rng::{mix, Rng};
use crate::tt::{self, TT};
use crate::worlds::bdd::{self as wb, gen_operand, perm_from_index};
use crate::worlds::sat::{clause_of, gen_clause, K_CLAUSE};
use crate::worlds::sdd as ws;
use rsdd::builder::bdd::RobddBuilder;
use rsdd::builder::cache::AllIteTable;
use rsdd::builder::decision_nnf::{DecisionNNFBuilder, StandardDecisionNNFBuilder};
use rsdd::builder::sdd::{CompressionSddBuilder, SddBuilder};
use rsdd::builder::{BottomUpBuilder, TopDownBuilder};
use rsdd::constants::primes;
use rsdd::repr::{create_semantic_hash_map, BddPtr, Cnf, DDNNFPtr, Literal, PartialModel, SddPtr, VarLabel, VarOrder, WmcParams};
use rsdd::util::semirings::{BooleanSemiring, Complex, ExpectedUtility, FiniteField, Polynomial, RationalSemiring, RealSemiring, Semiring, MAX_COEFFS};
use std::collections::{BTreeMap, HashMap};

pub struct QueryWorld;

// set-up operations (kinds 1..) ; kind 0 = clause (top-down variant)
const S_VAR: u8 = 1;
const S_NEG: u8 = 2;
const S_AND: u8 = 3;
const S_OR: u8 = 4;
const S_XOR: u8 = 5;
const S_ITE: u8 = 6;
const S_CHILD: u8 = 7;
const Q: u8 = 8;
const S_COMPILE: u8 = 9;
const S_CHAIN: u8 = 10;

// query kinds (op.a[0])
const Q_WMC_REAL: i64 = 0;
const Q_WMC_FF_TINY: i64 = 1;
const Q_WMC_FF_SMALL: i64 = 2;
const Q_WMC_FF_LARGE: i64 = 3;
const Q_EVAL: i64 = 4;
const Q_WMC_RATIONAL: i64 = 5;
const Q_WMC_COMPLEX: i64 = 6;
const Q_WMC_EU: i64 = 7;
const Q_WMC_POLY: i64 = 8;
const Q_COUNT_NODES: i64 = 9;
const Q_SEMHASH: i64 = 10;
const Q_CACHED_SEMHASH: i64 = 11;
const Q_BDD_FOLD: i64 = 12;
const Q_MARGINAL_MAP: i64 = 13;
const Q_MEU: i64 = 14;
const Q_BB: i64 = 15;
const Q_SMOOTH: i64 = 16;
const Q_CONDITION: i64 = 17;
const Q_CONDITION_MODEL: i64 = 18;
/// export through the serialisable mirror types (a public walk over the diagram like any other query)
const Q_SERIALIZE: i64 = 19;
/// the builder's statistics entry points: public calls that walk the store; their own answers depend on what
/// else the builder holds and are not compared, what they leave behind is
const Q_STATS: i64 = 20;
const NQ: usize = 21;
const QNAMES: [&str; NQ] = [
    "wmc<Real>", "wmc<FF tiny>", "wmc<FF small>", "wmc<FF 64>", "evaluate", "wmc<Rational>", "wmc<Complex>", "wmc<ExpectedUtility>",
    "wmc<Polynomial>", "count_nodes", "semantic_hash", "cached_semantic_hash", "bdd_fold", "marginal_map", "meu", "bb", "smooth",
    "condition", "condition_model", "serialize", "statistics",
];

type Ans = Vec<u64>;
type BPtr = BddPtr<'static>;
type SPtr = SddPtr<'static>;

/// weights of every semiring, derived from one seed (same for shared and fresh builder)
struct Weights {
    real: WmcParams<RealSemiring>,
    prob: WmcParams<RealSemiring>,
    tiny: WmcParams<FiniteField<{ primes::U32_TINY }>>,
    small: WmcParams<FiniteField<{ primes::U32_SMALL }>>,
    large: WmcParams<FiniteField<{ primes::U64_LARGEST }>>,
    rational: WmcParams<RationalSemiring>,
    complex: WmcParams<Complex>,
    eu: WmcParams<ExpectedUtility>,
    poly: WmcParams<Polynomial<RealSemiring>>,
}

fn rat(k: u64) -> RationalSemiring {
    let mut r = RationalSemiring::zero();
    for _ in 0..k {
        r = r + RationalSemiring::one();
    }
    r
}

fn weights(seed: u64, n: usize) -> Weights {
    let mut r = Rng::new(seed);
    let mut real = HashMap::new();
    let mut prob = HashMap::new();
    let mut tiny = HashMap::new();
    let mut small = HashMap::new();
    let mut large = HashMap::new();
    let mut rational = HashMap::new();
    let mut complex = HashMap::new();
    let mut eu = HashMap::new();
    let mut poly = HashMap::new();
    // one weight table in three is "special": a variable in three then carries the values arithmetic shortcuts
    // get wrong -- zero, one, minus one, equal low and high, the field elements 0, 1 and p-1
    let special_table = r.below(3) == 0;
    for v in 0..n {
        let l = VarLabel::new(v as u64);
        let sp = special_table && r.below(3) == 0;
        let same = sp && r.below(3) == 0;
        // small dyadic rationals: every sum and product below is exact in f64
        let re = |r: &mut Rng| if sp { *r.pick(&[0.0, 1.0, -1.0, -0.5, 2.0]) } else { r.below(9) as f64 / 4.0 };
        let (a, b) = (re(&mut r), re(&mut r));
        real.insert(l, (RealSemiring(a), RealSemiring(if same { a } else { b })));
        let k = if sp { *r.pick(&[0.0, 8.0, 4.0]) } else { r.below(9) as f64 };
        prob.insert(l, (RealSemiring(k / 8.0), RealSemiring(1.0 - k / 8.0)));
        let ff = |r: &mut Rng, p: u128, wide: bool| -> u128 {
            if sp {
                *r.pick(&[0, 1, p - 1, p - 2, 2])
            } else if wide {
                r.next() as u128
            } else {
                r.below(1000) as u128
            }
        };
        let (a, b) = (ff(&mut r, primes::U32_TINY, false), ff(&mut r, primes::U32_TINY, false));
        tiny.insert(l, (FiniteField::new(a), FiniteField::new(if same { a } else { b })));
        let (a, b) = (ff(&mut r, primes::U32_SMALL, true), ff(&mut r, primes::U32_SMALL, true));
        small.insert(l, (FiniteField::new(a), FiniteField::new(if same { a } else { b })));
        let (a, b) = (ff(&mut r, primes::U64_LARGEST, true), ff(&mut r, primes::U64_LARGEST, true));
        large.insert(l, (FiniteField::new(a), FiniteField::new(if same { a } else { b })));
        rational.insert(l, (rat(r.below(4)), rat(r.below(4))));
        let cx = |r: &mut Rng| {
            if sp {
                *r.pick(&[Complex { re: 0.0, im: 0.0 }, Complex { re: 1.0, im: 0.0 }, Complex { re: 0.0, im: 1.0 }, Complex { re: -1.0, im: 0.0 }])
            } else {
                Complex { re: r.below(5) as f64 / 2.0, im: r.below(5) as f64 / 2.0 - 1.0 }
            }
        };
        let (a, b) = (cx(&mut r), cx(&mut r));
        complex.insert(l, (a, if same { a } else { b }));
        let k = if sp { *r.pick(&[0.0, 8.0, 4.0]) } else { r.below(9) as f64 };
        eu.insert(l, (ExpectedUtility(k / 8.0, r.below(4) as f64), ExpectedUtility(1.0 - k / 8.0, if sp { 0.0 } else { r.below(4) as f64 })));
        let mk = |r: &mut Rng| {
            let mut p = Polynomial::<RealSemiring>::zero();
            let len = 1 + r.below(3) as usize;
            for i in 0..len {
                p.coefficients[i] = RealSemiring(r.below(5) as f64 / 2.0);
            }
            p.len = len;
            p
        };
        let (a, b) = (mk(&mut r), mk(&mut r));
        poly.insert(l, (a, b));
    }
    Weights {
        real: WmcParams::new(real),
        prob: WmcParams::new(prob),
        tiny: WmcParams::new(tiny),
        small: WmcParams::new(small),
        large: WmcParams::new(large),
        rational: WmcParams::new(rational),
        complex: WmcParams::new(complex),
        eu: WmcParams::new(eu),
        poly: WmcParams::new(poly),
    }
}

fn poly_ans(p: &Polynomial<RealSemiring>) -> Ans {
    let mut a = vec![p.len as u64];
    for i in 0..MAX_COEFFS {
        a.push(p.coefficients[i].0.to_bits());
    }
    a
}

/// queries every d-DNNF pointer type supports
/// One query in four of the kinds below is asked under a weight table *derived* from the run's table: the same table
/// with the low and high weight of one variable (any of the n, chosen by the argument word) exchanged. Tables that
/// agree almost everywhere are what a caller produces by editing a table between two queries; whatever a query
/// remembers about "the" table it last saw must not leak into the answer for its neighbour.
fn derived<T: rsdd::util::semirings::Semiring + Clone>(t: &WmcParams<T>, arg: i64, n: usize) -> Option<WmcParams<T>> {
    if n == 0 || (arg >> 8) & 3 != 0 {
        return None;
    }
    let v = VarLabel::new((mix(arg as u64, 0xd371) % n as u64) as u64);
    let mut m = t.clone();
    let (lo, hi) = m.var_weight(v).clone();
    m.set_weight(v, hi, lo);
    Some(m)
}

fn generic_query<'a, P: DDNNFPtr<'a>>(p: &P, q: i64, arg: i64, w: &Weights, n: usize) -> Option<Ans> {
    Some(match q {
        Q_WMC_REAL => vec![p.unsmoothed_wmc(derived(&w.real, arg, n).as_ref().unwrap_or(&w.real)).0.to_bits()],
        Q_WMC_FF_TINY => vec![p.unsmoothed_wmc(&w.tiny).value() as u64],
        Q_WMC_FF_SMALL => vec![p.unsmoothed_wmc(derived(&w.small, arg, n).as_ref().unwrap_or(&w.small)).value() as u64],
        Q_WMC_FF_LARGE => vec![p.unsmoothed_wmc(derived(&w.large, arg, n).as_ref().unwrap_or(&w.large)).value() as u64],
        Q_EVAL => {
            let a: Vec<bool> = (0..n).map(|v| bit(arg, v)).collect();
            vec![p.evaluate(&a) as u64]
        }
        Q_WMC_RATIONAL => vec![crate::rng::str_hash(&format!("{}", p.unsmoothed_wmc(&w.rational)))],
        Q_WMC_COMPLEX => {
            let c = p.unsmoothed_wmc(&w.complex);
            vec![c.re.to_bits(), c.im.to_bits()]
        }
        Q_WMC_EU => {
            let c = p.unsmoothed_wmc(&w.eu);
            vec![c.0.to_bits(), c.1.to_bits()]
        }
        Q_WMC_POLY => poly_ans(&p.unsmoothed_wmc(&w.poly)),
        Q_COUNT_NODES => vec![p.count_nodes() as u64],
        Q_SEMHASH => match arg.rem_euclid(3) {
            0 => {
                let m = create_semantic_hash_map::<{ primes::U32_TINY }>(n);
                vec![p.semantic_hash(derived(&m, arg, n).as_ref().unwrap_or(&m)).value() as u64]
            }
            1 => {
                let m = create_semantic_hash_map::<{ primes::U32_SMALL }>(n);
                vec![p.semantic_hash(derived(&m, arg, n).as_ref().unwrap_or(&m)).value() as u64]
            }
            _ => {
                let m = create_semantic_hash_map::<{ primes::U64_LARGEST }>(n);
                vec![p.semantic_hash(derived(&m, arg, n).as_ref().unwrap_or(&m)).value() as u64]
            }
        },
        _ => return None,
    })
}

fn model_ans(m: &PartialModel, n: usize) -> u64 {
    let mut x = 0u64;
    for v in 0..n {
        x = x.wrapping_mul(1_000_003).wrapping_add(match m.get(VarLabel::new(v as u64)) {
            None => 0,
            Some(false) => 1,
            Some(true) => 2,
        });
    }
    x
}

/// bit `v` of an argument word (beyond 24 bits the word is stretched by hashing, so that any number of variables is covered)
fn bit(arg: i64, v: usize) -> bool {
    if v < 24 {
        (arg >> v) & 1 == 1
    } else {
        mix(arg as u64, v as u64) & 1 == 1
    }
}

fn var_subset(mask: i64, n: usize) -> Vec<VarLabel> {
    // at most 6 query/decision variables: the optimisation queries branch over all their assignments
    (0..n).filter(|v| bit(mask, *v)).take(6).map(|v| VarLabel::new(v as u64)).collect()
}

/// BDD-only queries. Diagram-valued answers are returned as (signature, truth table).
fn bdd_query(b: &'static RobddBuilder<'static, AllIteTable<BPtr>>, p: BPtr, q: i64, a1: i64, a2: i64, w: &Weights, n: usize, cached_map: &WmcParams<FiniteField<{ primes::U64_LARGEST }>>) -> (Ans, Option<BPtr>) {
    if let Some(a) = generic_query(&p, q, a1, w, n) {
        return (a, None);
    }
    match q {
        Q_CACHED_SEMHASH => (vec![p.cached_semantic_hash(b.order(), cached_map).value() as u64], None),
        Q_BDD_FOLD => {
            let f = |v: VarLabel, lo: u64, hi: u64| lo.wrapping_mul(3).wrapping_add(hi.wrapping_mul(5)).wrapping_add(v.value());
            (vec![p.bdd_fold(&f, 1u64, 2u64)], None)
        }
        Q_MARGINAL_MAP => {
            let vars = var_subset(a1, n);
            let (v, m) = p.marginal_map(&vars, n, &w.prob);
            (vec![v.to_bits(), model_ans(&m, n)], None)
        }
        Q_MEU => {
            let vars = var_subset(a1, n);
            let (v, m) = p.meu(&vars, n, &w.eu);
            (vec![v.0.to_bits(), v.1.to_bits(), model_ans(&m, n)], None)
        }
        Q_BB => {
            let vars = var_subset(a1, n);
            if a2 & 1 == 0 {
                let (v, m) = p.bb(&vars, n, &w.prob);
                (vec![v.0.to_bits(), model_ans(&m, n)], None)
            } else {
                let (v, m) = p.bb(&vars, n, &w.eu);
                (vec![v.0.to_bits(), v.1.to_bits(), model_ans(&m, n)], None)
            }
        }
        Q_SMOOTH => {
            // smooth over the first 1..=min(n,12) variables of the order (smooth_helper recomputes the constant
            // tail twice per level, i.e. it is exponential in the number of levels: cost control only)
            let r = b.smooth(p, 1 + a1.unsigned_abs() as usize % n.min(12));
            (vec![wb::sig(r, &mut BTreeMap::new())], None)
        }
        Q_CONDITION => {
            let r = b.condition(p, VarLabel::new((a1.unsigned_abs() as usize % n) as u64), a2 & 1 == 1);
            (vec![wb::sig(r, &mut BTreeMap::new())], Some(r))
        }
        Q_CONDITION_MODEL => {
            let asg: Vec<Option<bool>> = (0..n).map(|v| if bit(a1, v) { Some(bit(a2, v)) } else { None }).collect();
            let r = b.condition_model(p, &wb::model_with_history(&asg, (a2 >> 20) & 1 == 1, (a1 ^ (a2 >> 3)) as u32));
            (vec![wb::sig(r, &mut BTreeMap::new())], Some(r))
        }
        Q_SERIALIZE => {
            let ser = rsdd::serialize::BDDSerializer::from_bdd(p);
            (vec![crate::rng::str_hash(&serde_json::to_string(&ser).unwrap_or_default())], None)
        }
        Q_STATS => {
            let _ = (b.stats(), b.num_recursive_calls());
            (vec![], None)
        }
        _ => (vec![], None),
    }
}

/// rebuild a function from its truth table by Shannon expansion through ite
fn rebuild_bdd(b: &'static RobddBuilder<'static, AllIteTable<BPtr>>, t: TT, order: &[usize], memo: &mut BTreeMap<TT, BPtr>) -> BPtr {
    if t == tt::TRUE {
        return BddPtr::PtrTrue;
    }
    if t == tt::FALSE {
        return BddPtr::PtrFalse;
    }
    if let Some(p) = memo.get(&t) {
        return *p;
    }
    let v = *order.iter().find(|v| tt::depends_on(t, **v)).expect("non-constant table depends on a variable");
    let hi = rebuild_bdd(b, tt::restrict(t, v, true), order, memo);
    let lo = rebuild_bdd(b, tt::restrict(t, v, false), order, memo);
    let x = b.var(VarLabel::new(v as u64), true);
    let r = b.ite(x, hi, lo);
    memo.insert(t, r);
    r
}

fn rebuild_sdd(b: &'static CompressionSddBuilder<'static>, t: TT, n: usize, memo: &mut BTreeMap<TT, SPtr>) -> SPtr {
    if t == tt::TRUE {
        return SddPtr::PtrTrue;
    }
    if t == tt::FALSE {
        return SddPtr::PtrFalse;
    }
    if let Some(p) = memo.get(&t) {
        return *p;
    }
    let v = (0..n).find(|v| tt::depends_on(t, *v)).expect("depends on a variable");
    let hi = rebuild_sdd(b, tt::restrict(t, v, true), n, memo);
    let lo = rebuild_sdd(b, tt::restrict(t, v, false), n, memo);
    let x = b.var(VarLabel::new(v as u64), true);
    let r = b.ite(x, hi, lo);
    memo.insert(t, r);
    r
}

fn scratch_monitor_bdd(ctx: &mut Ctx, b: &'static RobddBuilder<'static, AllIteTable<BPtr>>, after: &str) -> R {
    let mut dirty = 0;
    let mut first = 0usize;
    for nd in b.verif_nodes() {
        if !BddPtr::Reg(nd).is_scratch_cleared() {
            if dirty == 0 {
                first = nd as *const _ as usize;
            }
            dirty += 1;
        }
    }
    ctx.check("C10", "scratch-left-after-public-call", dirty == 0, || {
        format!("after {after}: {dirty} node(s) of the builder still hold scratch data (first: {first:#x})")
    })
}

fn resolve(arg: i64, n: usize) -> usize {
    n - 1 - ((arg.unsigned_abs() as usize >> 1) % n)
}

/// how a pool entry was made (pool index = index into the construction history); in a brand-new builder the
/// history can be replayed, and reduced diagrams over <= 7 variables are instead rebuilt from their truth table
#[derive(Clone, Copy)]
enum Setup {
    Var(usize, bool),
    Neg(usize),
    And(usize, usize),
    Or(usize, usize),
    Xor(usize, usize),
    Ite(usize, usize, usize),
    Child(usize, bool),
    Smooth(usize, usize),
    Cond(usize, usize, bool),
    CondModel(usize, i64, i64),
    /// OR over i of (x_{p+2i} & x_{p+2i+1}) along `len` consecutive positions of a label list: a deep diagram
    Chain(usize, usize),
}

fn exec_setup(b: &'static RobddBuilder<'static, AllIteTable<BPtr>>, st: &Setup, pool: &[BPtr], n: usize) -> BPtr {
    match *st {
        Setup::Var(v, pol) => b.var(VarLabel::new(v as u64), pol),
        Setup::Neg(i) => b.negate(pool[i]),
        Setup::And(i, j) => b.and(pool[i], pool[j]),
        Setup::Or(i, j) => b.or(pool[i], pool[j]),
        Setup::Xor(i, j) => b.xor(pool[i], pool[j]),
        Setup::Ite(i, j, k) => b.ite(pool[i], pool[j], pool[k]),
        Setup::Child(i, hi) => {
            let h = pool[i];
            if h.is_const() {
                h
            } else if hi {
                h.high()
            } else {
                h.low()
            }
        }
        Setup::Smooth(i, k) => b.smooth(pool[i], k),
        Setup::Cond(i, v, val) => b.condition(pool[i], VarLabel::new(v as u64), val),
        Setup::Chain(start, len) => {
            let mut acc = b.false_ptr();
            let mut i = start;
            while i + 1 < (start + len).min(n) {
                // neighbours in the builder's order (pairs that are far apart in the order would blow the diagram up)
                let (va, vb) = (b.order().var_at_level(i), b.order().var_at_level(i + 1));
                let t = b.and(b.var(va, true), b.var(vb, true));
                acc = b.or(acc, t);
                i += 2;
            }
            acc
        }
        Setup::CondModel(i, a1, a2) => {
            let asg: Vec<Option<bool>> = (0..n).map(|v| if bit(a1, v) { Some(bit(a2, v)) } else { None }).collect();
            b.condition_model(pool[i], &PartialModel::from_assignments(&asg))
        }
    }
}

/// the copy of pool entry `h` in a brand-new builder
fn build_fresh(b: &'static RobddBuilder<'static, AllIteTable<BPtr>>, setup: &[Setup], plain: &[bool], tts: &[TT], h: usize, order: &[usize], n: usize) -> BPtr {
    if n <= tt::MAXV && plain[h] {
        // a reduced diagram is determined by its function: rebuild it by Shannon expansion
        return rebuild_bdd(b, tts[h], order, &mut BTreeMap::new());
    }
    // otherwise replay the construction history (no query has run in this builder)
    let mut pool: Vec<BPtr> = Vec::with_capacity(h + 1);
    for st in setup.iter().take(h + 1) {
        let p = exec_setup(b, st, &pool, n);
        pool.push(p);
    }
    pool[h]
}

fn run_bdd(plan: &Plan, ctx: &mut Ctx) -> R {
    let n = plan.get("nvars").clamp(1, 256) as usize;
    let small = n <= tt::MAXV;
    let perm: Vec<usize> = if small {
        perm_from_index(n, plan.get("order_idx") as u64)
    } else {
        let mut p: Vec<usize> = (0..n).collect();
        Rng::new(plan.get("order_idx") as u64 ^ 0x0bde).shuffle(&mut p);
        p
    };
    let labels: Vec<VarLabel> = perm.iter().map(|v| VarLabel::new(*v as u64)).collect();
    let order = VarOrder::new(&labels);
    let b: &'static RobddBuilder<'static, AllIteTable<BPtr>> = Box::leak(Box::new(RobddBuilder::new(order.clone())));
    let w = weights(plan.get("wseed") as u64, n);
    let cached_map = create_semantic_hash_map::<{ primes::U64_LARGEST }>(n);
    let mut pool: Vec<BPtr> = Vec::new();
    let mut tts: Vec<TT> = Vec::new();
    let mut setup: Vec<Setup> = Vec::new();
    // reduced canonical diagram (not derived from a smoothed one)?
    let mut plain: Vec<bool> = Vec::new();
    // more than 40 nodes (only tracked beyond 7 variables)
    let mut deep: Vec<bool> = Vec::new();
    let mut nq = 0u64;
    let mut kinds_seen = 0u32;
    let mut smoothed_queries = 0u64;
    let tt_of = |p: BPtr| if small { wb::walk_raw(p, &mut BTreeMap::new()) } else { 0 };

    for (i, op) in plan.ops.iter().enumerate() {
        ctx.step = i;
        ctx.ops += 1;
        ctx.cur_prop = "C10";
        let np = pool.len();
        let mut kind = if np == 0 && op.k != S_VAR && op.k != S_CHAIN { S_VAR } else { op.k };
        // and/or/xor/ite are only issued on reduced diagrams (a smoothed diagram is not one)
        if matches!(kind, S_AND | S_OR | S_XOR | S_ITE) {
            let nops = if kind == S_ITE { 3 } else { 2 };
            // ... and, beyond 7 variables, only on small ones: rsdd's ite does not memoise reductions, so an
            // apply whose sub-results collapse (f & !f, f xor f, ...) enumerates paths: exponential on deep diagrams
            if (0..nops).any(|j| !plain[resolve(op.a[j], np)] || deep[resolve(op.a[j], np)]) {
                kind = S_CHILD;
            }
        }
        match kind {
            S_VAR | S_NEG | S_AND | S_OR | S_XOR | S_ITE | S_CHILD | S_CHAIN => {
                let g = |j: usize| resolve(op.a[j], np);
                let (st, pl) = match kind {
                    S_VAR => (Setup::Var(op.a[0].unsigned_abs() as usize % n, op.a[3] & 1 == 1), true),
                    S_CHAIN => (Setup::Chain(op.a[0].unsigned_abs() as usize % n, 2 + op.a[1].unsigned_abs() as usize % n), true),
                    S_NEG => (Setup::Neg(g(0)), plain[g(0)]),
                    S_AND => (Setup::And(g(0), g(1)), true),
                    S_OR => (Setup::Or(g(0), g(1)), true),
                    S_XOR => (Setup::Xor(g(0), g(1)), true),
                    S_ITE => (Setup::Ite(g(0), g(1), g(2)), true),
                    // a sub-diagram of an existing diagram (shares all its nodes)
                    _ => (Setup::Child(g(0), op.a[3] & 1 == 1), plain[g(0)]),
                };
                let p = exec_setup(b, &st, &pool, n);
                let t = tt_of(p);
                pool.push(p);
                tts.push(t);
                setup.push(st);
                plain.push(pl);
                deep.push(!small && p.count_nodes() > 40);
                ctx.ev(100 + kind as u64, &[wb::addr(p) as u64, p.is_neg() as u64, tt::lo(t), tt::hi(t)]);
                ctx.note(|| format!("[{i}] c{} h{} = setup#{kind} -> {}{:#x} tt={}", op.c, pool.len() - 1, if p.is_neg() { "~" } else { "" }, wb::addr(p), tt::show(t)));
            }
            Q => {
                let mut q = op.a[0].rem_euclid(NQ as i64);
                let h = resolve(op.a[1], np);
                if !plain[h] {
                    // smoothed (non-reduced) diagrams: numeric queries only
                    if matches!(q, Q_SMOOTH | Q_CONDITION | Q_CONDITION_MODEL) {
                        q = Q_WMC_REAL;
                    }
                    smoothed_queries += 1;
                } else if deep[h] && matches!(q, Q_CONDITION | Q_CONDITION_MODEL) {
                    // conditioning does not memoise reductions either: on a deep diagram whose conditioned form
                    // collapses it enumerates paths (cost control only)
                    q = Q_COUNT_NODES;
                }
                let (a1, a2) = (op.a[2], op.a[3]);
                let p = pool[h];
                // ---- on the shared builder
                let (got, diag) = bdd_query(b, p, q, a1, a2, &w, n, &cached_map);
                nq += 1;
                kinds_seen |= 1 << q;
                scratch_monitor_bdd(ctx, b, QNAMES[q as usize])?;
                // ---- the same query on a freshly built copy in a brand-new builder
                rsdd::verif::set_knobs(Some(64), None);
                let was = rsdd::verif::set_faults_enabled(false);
                let fresh: &'static RobddBuilder<'static, AllIteTable<BPtr>> = Box::leak(Box::new(RobddBuilder::new(order.clone())));
                let fp = build_fresh(fresh, &setup, &plain, &tts, h, &perm, n);
                let fresh_map = create_semantic_hash_map::<{ primes::U64_LARGEST }>(n);
                let (want, fdiag) = bdd_query(fresh, fp, q, a1, a2, &w, n, &fresh_map);
                rsdd::verif::set_faults_enabled(was);
                let tc = plan.get_or("table_cap", 0);
                rsdd::verif::set_knobs(if tc == 0 { None } else { Some(tc as usize) }, None);
                ctx.ev(100 + Q as u64, &[q as u64, h as u64, got.first().copied().unwrap_or(0), got.len() as u64]);
                ctx.note(|| format!("[{i}] c{} {}(h{h}{}, {a1}, {a2}) = {:x?} (fresh copy: {:x?})", op.c, QNAMES[q as usize], if plain[h] { "" } else { " [smoothed]" }, got, want));
                ctx.check("C10", "query-answer-differs-from-fresh-copy", got == want, || {
                    format!("{}(h{h}) on the shared builder = {:x?}; the same query on a freshly built copy of that diagram = {:x?}", QNAMES[q as usize], got, want)
                })?;
                if q == Q_SMOOTH {
                    // the smoothed diagram joins the pool: later queries run on it and on its sub-diagrams
                    let st = Setup::Smooth(h, 1 + a1.unsigned_abs() as usize % n.min(12));
                    let r = exec_setup(b, &st, &pool, n);
                    scratch_monitor_bdd(ctx, b, "smooth")?;
                    pool.push(r);
                    tts.push(tt_of(r));
                    setup.push(st);
                    plain.push(false);
                    deep.push(!small);
                }
                if let (Some(d), Some(fd)) = (diag, fdiag) {
                    if small {
                        let (t1, t2) = (wb::walk_raw(d, &mut BTreeMap::new()), wb::walk_raw(fd, &mut BTreeMap::new()));
                        ctx.check("C10", "query-answer-differs-from-fresh-copy", t1 == t2, || {
                            format!("{}(h{h}) returns a diagram denoting {} on the shared builder and {} on a fresh copy", QNAMES[q as usize], tt::show(t1), tt::show(t2))
                        })?;
                    }
                    // conditioned diagrams join the pool: later queries run on them too
                    pool.push(d);
                    tts.push(tt_of(d));
                    setup.push(if q == Q_CONDITION { Setup::Cond(h, a1.unsigned_abs() as usize % n, a2 & 1 == 1) } else { Setup::CondModel(h, a1, a2) });
                    plain.push(true);
                    deep.push(!small && d.count_nodes() > 40);
                }
            }
            _ => {}
        }
    }
    ctx.count("queries", nq);
    ctx.count("queries-on-smoothed-diagrams", smoothed_queries);
    ctx.count("runs-with-more-than-7-variables", (!small) as u64);
    ctx.nontrivial = nq >= 2 && kinds_seen.count_ones() >= 2 && pool.iter().any(|p| !p.is_const());
    ctx.states.push(kinds_seen as u64);
    Ok(())
}

// ------------------------------------------------------------------ SDD variant

fn sdd_query(b: &'static CompressionSddBuilder<'static>, p: SPtr, q: i64, a1: i64, a2: i64, w: &Weights, n: usize, cached_map: &WmcParams<FiniteField<{ primes::U64_LARGEST }>>) -> (Ans, Option<SPtr>) {
    if let Some(a) = generic_query(&p, q, a1, w, n) {
        return (a, None);
    }
    match q {
        Q_CACHED_SEMHASH => (vec![p.cached_semantic_hash(b.vtree_manager(), cached_map).value() as u64], None),
        Q_CONDITION => {
            let r = b.condition(p, VarLabel::new((a1.unsigned_abs() as usize % n) as u64), a2 & 1 == 1);
            (vec![ws::sig(r, &mut BTreeMap::new())], Some(r))
        }
        Q_SERIALIZE => {
            let ser = rsdd::serialize::SDDSerializer::from_sdd(p);
            (vec![crate::rng::str_hash(&serde_json::to_string(&ser).unwrap_or_default())], None)
        }
        Q_STATS => {
            let _ = (b.stats(), b.node_iter().len());
            (vec![], None)
        }
        _ => (vec![], None),
    }
}

fn run_sdd(plan: &Plan, ctx: &mut Ctx) -> R {
    let n = plan.get("nvars").clamp(1, 7) as usize;
    let mk = || -> &'static CompressionSddBuilder<'static> {
        let vt = ws::build_vtree(n, plan.get("vt_shape"), plan.get("vt_seed") as u64, plan.get("order_idx") as u64);
        Box::leak(Box::new(CompressionSddBuilder::new(vt)))
    };
    let b = mk();
    let w = weights(plan.get("wseed") as u64, n);
    let cached_map = create_semantic_hash_map::<{ primes::U64_LARGEST }>(n);
    let mut pool: Vec<SPtr> = Vec::new();
    let mut tts: Vec<TT> = Vec::new();
    let mut nq = 0u64;
    let mut kinds_seen = 0u32;
    for (i, op) in plan.ops.iter().enumerate() {
        ctx.step = i;
        ctx.ops += 1;
        ctx.cur_prop = "C10";
        let np = pool.len();
        let kind = if np == 0 && op.k != S_VAR { S_VAR } else { op.k };
        match kind {
            S_VAR | S_NEG | S_AND | S_OR | S_XOR | S_ITE | S_CHILD => {
                let g = |j: usize| resolve(op.a[j], np);
                let (p, t) = match kind {
                    S_VAR => {
                        let v = op.a[0].unsigned_abs() as usize % n;
                        let pol = op.a[3] & 1 == 1;
                        (b.var(VarLabel::new(v as u64), pol), tt::lit(v, pol))
                    }
                    S_NEG => (b.negate(pool[g(0)]), !tts[g(0)]),
                    S_AND => (b.and(pool[g(0)], pool[g(1)]), tts[g(0)] & tts[g(1)]),
                    S_OR => (b.or(pool[g(0)], pool[g(1)]), tts[g(0)] | tts[g(1)]),
                    S_XOR => (b.xor(pool[g(0)], pool[g(1)]), tts[g(0)] ^ tts[g(1)]),
                    S_ITE => (b.ite(pool[g(0)], pool[g(1)], pool[g(2)]), tt::ite(tts[g(0)], tts[g(1)], tts[g(2)])),
                    _ => {
                        // a sub-diagram: some prime or sub of an existing decision node
                        let h = pool[g(0)];
                        if h.is_const() || h.is_var() {
                            (h, tts[g(0)])
                        } else {
                            let es: Vec<_> = h.node_iter().collect();
                            let e = es[(op.a[1].unsigned_abs() as usize) % es.len()];
                            let c = if op.a[3] & 1 == 1 { e.prime() } else { e.sub() };
                            let t = ws::walk(c, &mut BTreeMap::new());
                            (c, t)
                        }
                    }
                };
                pool.push(p);
                tts.push(t);
                ctx.ev(120 + kind as u64, &[ws::pkey(p).0 as u64, ws::pkey(p).1 as u64, tt::lo(t), tt::hi(t)]);
                ctx.note(|| format!("[{i}] c{} h{} = setup#{kind} -> {} tt={}", op.c, pool.len() - 1, ws::show(p), tt::show(t)));
            }
            Q => {
                let mut q = op.a[0].rem_euclid(NQ as i64);
                if q > Q_CACHED_SEMHASH && q != Q_CONDITION && q != Q_SERIALIZE && q != Q_STATS {
                    q = q % (Q_CACHED_SEMHASH + 1);
                }
                let h = resolve(op.a[1], np);
                let (a1, a2) = (op.a[2], op.a[3]);
                let p = pool[h];
                let (got, diag) = sdd_query(b, p, q, a1, a2, &w, n, &cached_map);
                nq += 1;
                kinds_seen |= 1 << q;
                let dirty = b.node_iter().iter().filter(|x| !x.is_scratch_cleared()).count();
                ctx.check("C10", "scratch-left-after-public-call", dirty == 0, || {
                    format!("after {}: {dirty} SDD node(s) of the builder still hold scratch data", QNAMES[q as usize])
                })?;
                rsdd::verif::set_knobs(Some(64), None);
                let was = rsdd::verif::set_faults_enabled(false);
                let fresh = mk();
                let fp = rebuild_sdd(fresh, tts[h], n, &mut BTreeMap::new());
                let fresh_map = create_semantic_hash_map::<{ primes::U64_LARGEST }>(n);
                let (want, fdiag) = sdd_query(fresh, fp, q, a1, a2, &w, n, &fresh_map);
                rsdd::verif::set_faults_enabled(was);
                let tc = plan.get_or("table_cap", 0);
                rsdd::verif::set_knobs(if tc == 0 { None } else { Some(tc as usize) }, None);
                ctx.ev(120 + Q as u64, &[q as u64, h as u64, got.first().copied().unwrap_or(0), got.len() as u64]);
                ctx.note(|| format!("[{i}] c{} {}(h{h}, {a1}, {a2}) = {:x?} (fresh copy: {:x?})", op.c, QNAMES[q as usize], got, want));
                ctx.check("C10", "query-answer-differs-from-fresh-copy", got == want, || {
                    format!("{}(h{h}) on the shared SDD builder = {:x?}; on a freshly built copy = {:x?}", QNAMES[q as usize], got, want)
                })?;
                if let (Some(d), Some(fd)) = (diag, fdiag) {
                    let (t1, t2) = (ws::walk(d, &mut BTreeMap::new()), ws::walk(fd, &mut BTreeMap::new()));
                    ctx.check("C10", "query-answer-differs-from-fresh-copy", t1 == t2, || {
                        format!("{}(h{h}) returns an SDD denoting {} on the shared builder and {} on a fresh copy", QNAMES[q as usize], tt::show(t1), tt::show(t2))
                    })?;
                    pool.push(d);
                    tts.push(t1);
                }
            }
            _ => {}
        }
    }
    ctx.count("queries", nq);
    ctx.nontrivial = nq >= 2 && kinds_seen.count_ones() >= 2 && pool.iter().any(|p| !p.is_const() && !p.is_var());
    ctx.states.push(kinds_seen as u64 | 1 << 40);
    Ok(())
}

// ------------------------------------------------------------------ top-down variant

fn run_topdown(plan: &Plan, ctx: &mut Ctx) -> R {
    let n = if plan.get_or("td_big", 0) != 0 { plan.get("nvars").clamp(1, 30) as usize } else { plan.get("nvars").clamp(1, 6) as usize };
    // clauses are distributed over up to 3 CNFs, all compiled in one builder
    let mut groups: Vec<Vec<Vec<(usize, bool)>>> = vec![Vec::new(); 3];
    for (j, op) in plan.ops.iter().filter(|o| o.k == K_CLAUSE).enumerate() {
        let c: Vec<(usize, bool)> = clause_of(op).into_iter().map(|(v, p)| (v % n, p)).collect();
        if !c.is_empty() {
            groups[(j + op.c as usize) % 3].push(c);
        }
    }
    let perm = perm_from_index(n, plan.get("order_idx") as u64);
    let labels: Vec<VarLabel> = perm.iter().map(|v| VarLabel::new(*v as u64)).collect();
    let order = VarOrder::new(&labels);
    let b: &'static StandardDecisionNNFBuilder<'static> = Box::leak(Box::new(StandardDecisionNNFBuilder::new(order.clone())));
    let td_cached_map = create_semantic_hash_map::<{ primes::U64_LARGEST }>(n);
    let w = weights(plan.get("wseed") as u64, n);
    let mk_cnf = |g: &Vec<Vec<(usize, bool)>>| -> Cnf {
        let mut cl: Vec<Vec<Literal>> = g.iter().map(|c| c.iter().map(|(v, p)| Literal::new(VarLabel::new(*v as u64), *p)).collect()).collect();
        // mention every variable so that the CNF has exactly n variables (a tautological clause changes no model)
        cl.push(vec![Literal::new(VarLabel::new(n as u64 - 1), true), Literal::new(VarLabel::new(n as u64 - 1), false)]);
        Cnf::new(&cl)
    };
    // handle = (pointer, recipe to rebuild it in a fresh builder)
    #[derive(Clone)]
    enum Recipe {
        Compile(usize),
        Neg(Box<Recipe>),
        Cond(Box<Recipe>, usize, bool),
    }
    fn build(b: &'static StandardDecisionNNFBuilder<'static>, r: &Recipe, cnfs: &[Cnf]) -> BPtr {
        match r {
            Recipe::Compile(g) => b.compile_cnf_topdown(&cnfs[*g]),
            Recipe::Neg(x) => build(b, x, cnfs).neg(),
            Recipe::Cond(x, v, val) => {
                let p = build(b, x, cnfs);
                b.condition(p, VarLabel::new(*v as u64), *val)
            }
        }
    }
    let cnfs: Vec<Cnf> = groups.iter().map(mk_cnf).collect();
    let mut pool: Vec<(BPtr, Recipe)> = Vec::new();
    let mut nq = 0u64;
    let mut kinds_seen = 0u32;
    for (i, op) in plan.ops.iter().enumerate() {
        ctx.step = i;
        if op.k == K_CLAUSE {
            continue;
        }
        ctx.ops += 1;
        ctx.cur_prop = "C10";
        let np = pool.len();
        let kind = if np == 0 { S_COMPILE } else { op.k };
        match kind {
            S_COMPILE | S_VAR | S_AND | S_OR | S_XOR | S_ITE => {
                let g = op.a[0].unsigned_abs() as usize % 3;
                let p = b.compile_cnf_topdown(&cnfs[g]);
                pool.push((p, Recipe::Compile(g)));
                ctx.ev(140, &[g as u64, wb::addr(p) as u64, p.is_neg() as u64]);
                ctx.note(|| format!("[{i}] h{} = compile_cnf_topdown(cnf#{g} {:?}) -> {:#x}", pool.len() - 1, groups[g], wb::addr(p)));
            }
            S_NEG => {
                let (p, r) = pool[resolve(op.a[0], np)].clone();
                pool.push((p.neg(), Recipe::Neg(Box::new(r))));
            }
            S_CHILD => {}
            Q => {
                let mut q = op.a[0].rem_euclid(NQ as i64);
                if q > Q_SEMHASH && q != Q_CONDITION && q != Q_SERIALIZE && q != Q_STATS && q != Q_CACHED_SEMHASH {
                    q = q % (Q_SEMHASH + 1);
                }
                let h = resolve(op.a[1], np);
                let (a1, a2) = (op.a[2], op.a[3]);
                let (p, recipe) = pool[h].clone();
                let run_q = |bb: &'static StandardDecisionNNFBuilder<'static>, p: BPtr| -> (Ans, Option<BPtr>) {
                    if let Some(a) = generic_query(&p, q, a1, &w, n) {
                        return (a, None);
                    }
                    if q == Q_SERIALIZE {
                        let ser = rsdd::serialize::BDDSerializer::from_bdd(p);
                        return (vec![crate::rng::str_hash(&serde_json::to_string(&ser).unwrap_or_default())], None);
                    }
                    if q == Q_STATS {
                        let _ = (bb.num_logically_redundant(), bb.stats());
                        return (vec![], None);
                    }
                    if q == Q_CACHED_SEMHASH {
                        return (vec![p.cached_semantic_hash(bb.order(), &td_cached_map).value() as u64], None);
                    }
                    let v = a1.unsigned_abs() as usize % n;
                    let r = bb.condition(p, VarLabel::new(v as u64), a2 & 1 == 1);
                    (vec![wb::sig(r, &mut BTreeMap::new())], Some(r))
                };
                let (got, diag) = run_q(b, p);
                nq += 1;
                kinds_seen |= 1 << q;
                let dirty = b.verif_nodes().iter().filter(|nd| !BddPtr::Reg(nd).is_scratch_cleared()).count();
                ctx.check("C10", "scratch-left-after-public-call", dirty == 0, || {
                    format!("after {}: {dirty} node(s) of the top-down builder still hold scratch data", QNAMES[q as usize])
                })?;
                rsdd::verif::set_knobs(Some(64), None);
                let was = rsdd::verif::set_faults_enabled(false);
                let fresh: &'static StandardDecisionNNFBuilder<'static> = Box::leak(Box::new(StandardDecisionNNFBuilder::new(order.clone())));
                let fp = build(fresh, &recipe, &cnfs);
                let (want, _) = run_q(fresh, fp);
                rsdd::verif::set_faults_enabled(was);
                let tc = plan.get_or("table_cap", 0);
                rsdd::verif::set_knobs(if tc == 0 { None } else { Some(tc as usize) }, None);
                ctx.ev(140 + Q as u64, &[q as u64, h as u64, got.first().copied().unwrap_or(0)]);
                ctx.note(|| format!("[{i}] c{} {}(h{h}, {a1}, {a2}) = {:x?} (fresh copy: {:x?})", op.c, QNAMES[q as usize], got, want));
                ctx.check("C10", "query-answer-differs-from-fresh-copy", got == want, || {
                    format!("{}(h{h}) on the shared top-down builder = {:x?}; on a freshly compiled copy = {:x?}", QNAMES[q as usize], got, want)
                })?;
                if let Some(d) = diag {
                    let v = a1.unsigned_abs() as usize % n;
                    pool.push((d, Recipe::Cond(Box::new(recipe), v, a2 & 1 == 1)));
                }
            }
            _ => {}
        }
    }
    ctx.count("queries", nq);
    ctx.nontrivial = nq >= 2 && kinds_seen.count_ones() >= 2 && pool.iter().any(|(p, _)| !p.is_const());
    ctx.states.push(kinds_seen as u64 | 1 << 41);
    ctx.count("topdown-store-over-8192-nodes", (b.verif_nodes().len() > 8192) as u64);
    Ok(())
}

impl World for QueryWorld {
    fn name(&self) -> &'static str {
        "query"
    }
    fn properties(&self) -> &'static [&'static str] {
        &["C10"]
    }

    fn generate(&self, run_seed: u64, target: &str, thorough: bool) -> Plan {
        let mut cfg = Cfg::new();
        let mut c = Rng::stream(run_seed, "config");
        let mut o = Rng::stream(run_seed, "ops");
        let mut s = Rng::stream(run_seed, "schedule");
        let mut p = Rng::stream(run_seed, "placement");
        let variant = c.weighted(&[5, 3, 2]) as i64; // 0 bdd, 1 sdd, 2 top-down
        cfg.insert("variant".into(), variant);
        // the BDD variant goes up to 24 variables in one run out of five (copies are then made by replaying the history)
        let wide_bdd = variant == 0 && c.below(5) == 0;
        let very_wide = wide_bdd && c.below(8) == 0;
        // top-down variant: one run in 25 compiles formulas over 22-28 variables (stores with thousands of nodes)
        let td_big = variant == 2 && c.below(25) == 0;
        cfg.insert("td_big".into(), td_big as i64);
        // BDD variant: one small run in 300 is a marathon of 70 000 - 110 000 queries on one builder, dominated by
        // one family of calls (conditioning), so that per-call counters go round more than 2^16 times
        let marathon = variant == 0 && !wide_bdd && c.below(300) == 0;
        let n = if td_big { 22 + c.below(7) } else if variant == 2 { 1 + c.below(6) } else if very_wide { 65 + c.below(180) } else if wide_bdd { 8 + c.below(17) } else { 1 + c.below(7) };
        cfg.insert("nvars".into(), n as i64);
        cfg.insert("order_idx".into(), c.below(5040) as i64);
        cfg.insert("vt_shape".into(), c.below(6) as i64);
        cfg.insert("vt_seed".into(), (c.next() >> 2) as i64);
        cfg.insert("wseed".into(), (c.next() >> 2) as i64);
        // (a marathon makes ~10^5 fresh copies: small initial tables keep them cheap)
        cfg.insert("table_cap".into(), if marathon { *c.pick(&[4i64, 16, 64]) } else { *c.pick(&[0i64, 4, 16, 64, 64]) });
        cfg.insert("place_off".into(), (p.below(4096) * 16) as i64);
        let mut rates = [0u16; NUM_SITES];
        if c.below(3) == 0 {
            rates[rsdd::verif::Site::CondMemoForget as usize] = 32;
        }
        if c.below(4) == 0 {
            rates[rsdd::verif::Site::TableGrowNow as usize] = 8;
        }
        let mut ops = Vec::new();
        if td_big {
            // three 3-CNFs of about 0.8 n clauses each
            for _ in 0..(2 * n + c.below(n)) {
                let mut a = [0i64; 4];
                for slot in a.iter_mut().take(3) {
                    let x = o.below(n) as i64 + 1;
                    *slot = if o.bool() { x } else { -x };
                }
                ops.push(Op { c: o.below(3) as u8, k: K_CLAUSE, a });
            }
        } else if variant == 2 {
            for _ in 0..(2 + c.below(9)) {
                ops.push(Op { c: o.below(3) as u8, k: K_CLAUSE, a: gen_clause(&mut o, n) });
            }
        }
        // BDD variant: one small run in 60 is a "counter period" history: f and g over disjoint variables; f is
        // conditioned, then exactly M conditioning queries work on g only, then f is conditioned again with other
        // arguments; M sits next to 2^8 / 2^16 minus a small offset (see worlds::bdd::period_ops)
        let period = variant == 0 && !wide_bdd && !marathon && c.below(60) == 0;
        if period {
            cfg.insert("nvars".into(), 7);
            cfg.insert("table_cap".into(), 16);
            cfg.insert("period".into(), 1);
            let at = |ops: &Vec<Op>, j: usize| -> i64 { (2 * (ops.iter().filter(|x| x.k != Q || x.a[0] == Q_CONDITION).count() - 1 - j)) as i64 };
            for v in [0i64, 1, 2, 4, 5, 6] {
                ops.push(Op { c: 0, k: S_VAR, a: [v, 0, 0, 1] });
            }
            let bin = |o: &mut Rng| *o.pick(&[S_AND, S_OR, S_XOR]);
            let (k0, k1, k2, k3) = (bin(&mut o), bin(&mut o), bin(&mut o), bin(&mut o));
            let a = [at(&ops, 0), at(&ops, 1), 0, 0];
            ops.push(Op { c: 0, k: k0, a });
            let a = [at(&ops, 6), at(&ops, 2), 0, 0];
            ops.push(Op { c: 0, k: k1, a });
            let a = [at(&ops, 3), at(&ops, 4), 0, 0];
            ops.push(Op { c: 0, k: k2, a });
            let a = [at(&ops, 8), at(&ops, 5), 0, 0];
            ops.push(Op { c: 0, k: k3, a });
            let (f, g) = (7usize, 9usize);
            let (n1, n2) = (1 + o.below(4), 2 + o.below(5));
            // the query that is repeated: conditioning half of the time (its results join the pool), otherwise one of the
            // read-only queries (node count, counts in two semirings, evaluation, plain and cached hash, fold, export):
            // whatever a query stamps, counts or memoises per call -- on the nodes, on the builder or on the thread --
            // comes back into play when a narrow counter has gone round
            let qk: i64 = if c.bool() { Q_CONDITION } else { *c.pick(&[Q_COUNT_NODES, Q_COUNT_NODES, Q_WMC_REAL, Q_WMC_FF_SMALL, Q_EVAL, Q_SEMHASH, Q_CACHED_SEMHASH, Q_BDD_FOLD, Q_SERIALIZE]) };
            let grows = qk == Q_CONDITION;
            cfg.insert("period_query".into(), qk);
            let mut n_pool = ops.iter().filter(|x| x.k != Q || x.a[0] == Q_CONDITION).count();
            let mut ask = |o: &mut Rng, ops: &mut Vec<Op>, target: usize, lo: u64| {
                let (w1, w2) = if grows { (lo as i64 + o.below(3) as i64, o.below(2) as i64) } else { ((o.next() >> 8) as i64, (o.next() >> 8) as i64) };
                ops.push(Op { c: 0, k: Q, a: [qk, (2 * (n_pool - 1 - target)) as i64, w1, w2] });
                if grows {
                    n_pool += 1;
                }
            };
            for _ in 0..n1 {
                ask(&mut o, &mut ops, f, 0);
            }
            let per: u64 = if c.below(4) == 0 { 256 } else { 65_536 };
            let m = match c.below(8) {
                0 => per + 1,
                1 => per,
                _ => per - 1 - c.below(2 * (n1 + n2) + 2),
            };
            // (the pool index of g stays 9; only the pool size grows)
            for _ in 0..m {
                ask(&mut o, &mut ops, g, 4);
            }
            for _ in 0..n2 {
                ask(&mut o, &mut ops, f, 0);
            }
            return Plan { world: "query".into(), target: target.into(), seed: run_seed, cfg, ops, faults: Faults::Random { seed: mix(run_seed, 83), rates: [0; NUM_SITES] } };
        }
        let ncallers = 1 + c.below(4);
        let setup = 3 + o.below(14);
        for _ in 0..setup {
            let k = if wide_bdd && o.below(5) == 0 { S_CHAIN } else { *o.pick(&[S_VAR, S_VAR, S_NEG, S_AND, S_AND, S_OR, S_OR, S_XOR, S_ITE, S_CHILD]) };
            ops.push(Op { c: s.below(ncallers) as u8, k, a: [gen_operand(&mut o), gen_operand(&mut o), gen_operand(&mut o), o.below(2) as i64] });
        }
        // big top-down runs, every other one: the statistics entry points are called right after the first
        // compilations, hashes are read at the end (the order in which a large store is first walked matters)
        let stats_first = td_big && c.bool();
        if stats_first {
            ops.push(Op { c: 0, k: Q, a: [Q_STATS, 0, 0, 0] });
        }
        // swarm: each query kind on or off per run
        let mut qw = [0u32; NQ];
        for q in qw.iter_mut() {
            *q = if c.below(3) == 0 { 0 } else { 1 + c.below(3) as u32 };
        }
        qw[Q_WMC_REAL as usize] = qw[Q_WMC_REAL as usize].max(1);
        if marathon {
            qw[Q_CONDITION as usize] = 40;
            qw[Q_CONDITION_MODEL as usize] = 5;
            qw[Q_SMOOTH as usize] = 0;
        }
        // every other very wide run is a "weight-table" run: mostly hashes and counts, a quarter of them under a table
        // derived from the run's table by editing one of its 65-244 variables (see `derived`)
        let table_run = very_wide && c.bool();
        if table_run {
            qw = [0u32; NQ];
            qw[Q_SEMHASH as usize] = 6;
            qw[Q_WMC_FF_LARGE as usize] = 3;
            qw[Q_WMC_FF_SMALL as usize] = 2;
            qw[Q_WMC_REAL as usize] = 3;
            qw[Q_COUNT_NODES as usize] = 1;
        }
        let len = if marathon { 70_000 + o.below(40_000) } else if table_run { 16 + o.below(24) } else { 4 + o.below(if very_wide || td_big { 16 } else if thorough { 70 } else { 40 }) };
        for _ in 0..len {
            let caller = s.below(ncallers) as u8;
            if o.below(8) == 0 {
                let k = *o.pick(&[S_NEG, S_AND, S_OR, S_CHILD, S_COMPILE]);
                ops.push(Op { c: caller, k, a: [gen_operand(&mut o), gen_operand(&mut o), gen_operand(&mut o), o.below(2) as i64] });
            } else {
                let q = o.weighted(&qw) as i64;
                // repeat immediately / on the complement / on a sub-diagram come from the operand distribution
                // argument words: mostly random bits; sometimes the shapes random bits rarely give
                // (no variable, one variable, every variable: empty / singleton / full lists and models)
                let word = |o: &mut Rng| -> i64 {
                    match o.below(12) {
                        0 => 0,
                        1 => 1i64 << o.below(8),
                        2 => (1i64 << 24) - 1,
                        _ => (o.next() >> 40) as i64,
                    }
                };
                let (w1, w2) = (word(&mut o), word(&mut o));
                ops.push(Op { c: caller, k: Q, a: [q, gen_operand(&mut o), w1, w2] });
                if o.below(5) == 0 {
                    let last = ops.last().unwrap().clone();
                    ops.push(last);
                }
            }
        }
        if stats_first {
            for j in 0..3 {
                ops.push(Op { c: 0, k: Q, a: [Q_CACHED_SEMHASH, 2 * j, 0, 0] });
            }
        }
        Plan {
            world: "query".into(),
            target: target.into(),
            seed: run_seed,
            cfg,
            ops,
            faults: Faults::Random { seed: mix(run_seed, 83), rates },
        }
    }

    fn execute(&self, plan: &Plan, ctx: &mut Ctx) -> R {
        match plan.get("variant") {
            0 => run_bdd(plan, ctx),
            1 => run_sdd(plan, ctx),
            _ => run_topdown(plan, ctx),
        }
    }

    fn simplify_cfg(&self, plan: &Plan) -> Vec<Cfg> {
        let mut v = Vec::new();
        for (k, val) in [("place_off", 0), ("order_idx", 0), ("vt_shape", 0), ("table_cap", 64)] {
            if plan.get_or(k, val) != val {
                let mut c = plan.cfg.clone();
                c.insert(k.into(), val);
                v.push(c);
            }
        }
        v
    }

    fn render_op(&self, op: &Op) -> String {
        match op.k {
            K_CLAUSE => format!("clause (cnf#{}) {:?}", op.c, clause_of(op)),
            Q => format!("c{}: query {} on handle#{} args ({}, {})", op.c, QNAMES[op.a[0].rem_euclid(NQ as i64) as usize], op.a[1], op.a[2], op.a[3]),
            k => format!("c{}: setup#{} {:?}", op.c, k, op.a),
        }
    }
}

#[allow(dead_code)]
fn _unused(_: BooleanSemiring) {}

//! `bddmid` world (C01, C02, C16): the `bdd` histories on 8-24 variables.
//!
//! A 128-bit truth table cannot describe such functions, so the oracle is a
//! *sampled sub-cube*: 7 "free" variables range over all 128 combinations on top
//! of each of 4 random base assignments of the other variables (512 points).
//! and/or/xor/iff/ite/negate act pointwise on any variables; condition, exists,
//! compose and condition_model are only issued on free variables, for which the
//! sub-cube tables are closed. Diagrams are read back by following one path per
//! point. Canonicity is judged structurally (reduced, ordered, no duplicate
//! triple, every stored node found again, re-issue pointer-equal) because equal
//! sample vectors do not prove equal functions.

use crate::core::*;
use crate::rng::{mix, Rng};
use crate::tt::{self, TT};
use crate::worlds::bdd::{addr, gen_operand, pkey, sig};
use rsdd::builder::bdd::{BddBuilder, RobddBuilder};
use rsdd::builder::cache::{AllIteTable, IteTable, LruIteTable};
use rsdd::builder::BottomUpBuilder;
use rsdd::repr::{BddNode, BddPtr, DDNNFPtr, VarLabel, VarOrder};
use std::collections::{BTreeMap, BTreeSet};

pub struct BddMidWorld;

use crate::worlds::bdd::{
    K_AND, K_ANDLST, K_AUDIT, K_COMPOSE, K_COND, K_CONDMODEL, K_CONST, K_EQ, K_EXISTS, K_IFF, K_ITE, K_NEG, K_NEWLABEL, K_NEWVAR, K_OR, K_ORLST, K_REISSUE,
    K_VAR, K_XOR,
};
/// compile_cnf of a seeded clause list over the variables in use (narrow clauses, clauses of tens of literals, and
/// clauses of 129-260 literals, which necessarily repeat variables and usually contain complementary literals)
pub const K_COMPILECNF: u8 = 19;
const NKINDS: usize = 20;
const KNAMES: [&str; NKINDS] = [
    "var", "new_var", "const", "negate", "and", "or", "xor", "iff", "ite", "condition", "condition_model", "exists", "compose", "and_lst", "or_lst", "eq",
    "reissue", "audit", "new_label+var", "compile_cnf",
];

/// the clause list of a compile_cnf operation: a pure function of its seed and of how many variables were in use
fn cnf_of(seed: u64, used: &[usize], n_used: usize) -> Vec<Vec<(usize, bool)>> {
    let mut r = Rng::new(mix(seed, 0xc4f));
    let universe = &used[..n_used.min(used.len()).max(1)];
    let mut out = Vec::new();
    for _ in 0..(1 + r.below(3)) {
        let width = match r.below(10) {
            0..=5 => 1 + r.below(5),
            6 | 7 => 20 + r.below(50),
            _ => 129 + r.below(132),
        } as usize;
        // a wide clause over few variables is (almost) always trivially true; keeping it to a window of the variables
        // and one polarity per variable most of the time leaves non-trivial wide clauses too
        let forced_pol = r.below(3) != 0;
        let pol_seed = r.next();
        out.push((0..width).map(|_| {
            let j = r.below(universe.len() as u64) as usize;
            let pol = if forced_pol && r.below(40) != 0 { (pol_seed >> (j % 64)) & 1 == 1 } else { r.bool() };
            (universe[j], pol)
        }).collect());
    }
    out
}
const NB: usize = 4;
type Ptr = BddPtr<'static>;
type M = [TT; NB];

fn m_map(a: M, f: impl Fn(TT) -> TT) -> M {
    [f(a[0]), f(a[1]), f(a[2]), f(a[3])]
}
fn m_zip(a: M, b: M, f: impl Fn(TT, TT) -> TT) -> M {
    [f(a[0], b[0]), f(a[1], b[1]), f(a[2], b[2]), f(a[3], b[3])]
}
fn m_zip3(a: M, b: M, c: M, f: impl Fn(TT, TT, TT) -> TT) -> M {
    [f(a[0], b[0], c[0]), f(a[1], b[1], c[1]), f(a[2], b[2], c[2]), f(a[3], b[3], c[3])]
}

/// the sampled sub-cube
struct Cube {
    /// free variables (labels), position j in this list is truth-table variable j
    free: Vec<usize>,
    /// free position of a label, if it is free
    pos: BTreeMap<usize, usize>,
    /// base assignments, one bit per *slot*
    base: [u128; NB],
    /// label -> slot (< 128) for every variable that operations may mention; 255 = never mentioned.
    /// Up to 120 variables every label has its own slot; beyond that only a chosen set of labels is used.
    slot: Vec<u8>,
    /// the labels that have a slot
    used: Vec<usize>,
}

impl Cube {
    fn assignment(&self, b: usize, idx: u32) -> u128 {
        let mut a = self.base[b];
        for (j, v) in self.free.iter().enumerate() {
            if (idx >> j) & 1 == 1 {
                a |= 1u128 << self.slot[*v];
            } else {
                a &= !(1u128 << self.slot[*v]);
            }
        }
        a
    }
    fn lit(&self, v: usize, pol: bool) -> M {
        match self.pos.get(&v) {
            Some(j) => [tt::lit(*j, pol); NB],
            None => {
                let mut m = [tt::FALSE; NB];
                for (b, x) in m.iter_mut().enumerate() {
                    *x = if ((self.base[b] >> self.slot[v]) & 1 == 1) == pol { tt::TRUE } else { tt::FALSE };
                }
                m
            }
        }
    }
    /// read a diagram back on the 512 points, raw fields or accessors
    fn read(&self, p: Ptr, through_accessors: bool) -> M {
        let nfree = self.free.len();
        let mut m = [tt::FALSE; NB];
        for (b, x) in m.iter_mut().enumerate() {
            let mut t: TT = 0;
            for idx in 0..(1u32 << nfree) {
                let a = self.assignment(b, idx);
                let v = if through_accessors { eval_acc(p, a, &self.slot) } else { eval_raw(p, a, &self.slot) };
                if v {
                    t |= 1u128 << idx;
                }
            }
            // replicate over the unused high index bits so that tables compare like tt.rs tables
            let mut w = 1usize << nfree;
            while w < 128 {
                t |= t << w;
                w *= 2;
            }
            *x = t;
        }
        m
    }
}

fn eval_raw(mut p: Ptr, asg: u128, slot: &[u8]) -> bool {
    let mut neg = false;
    loop {
        match p {
            BddPtr::PtrTrue => return !neg,
            BddPtr::PtrFalse => return neg,
            BddPtr::Reg(n) => p = if (asg >> (slot[n.var.value_usize()] & 127)) & 1 == 1 { n.high } else { n.low },
            BddPtr::Compl(n) => {
                neg = !neg;
                p = if (asg >> (slot[n.var.value_usize()] & 127)) & 1 == 1 { n.high } else { n.low };
            }
        }
    }
}
fn eval_acc(mut p: Ptr, asg: u128, slot: &[u8]) -> bool {
    loop {
        if p.is_true() {
            return true;
        }
        if p.is_false() {
            return false;
        }
        let v = p.var_safe().unwrap().value_usize();
        p = if (asg >> (slot[v] & 127)) & 1 == 1 { p.high() } else { p.low() };
    }
}

use crate::worlds::bdd::{list_items, LIST_LENS};

#[derive(Clone, Copy)]
struct Resolved {
    kind: u8,
    x: [usize; 3],
    label: usize,
    flag: bool,
    bits: (u32, u32),
    list_len: usize,
    result: Option<usize>,
}

/// number of distinct internal nodes under `p`, counting stops at `limit` (cost control only)
fn dag_size(p: Ptr, limit: usize) -> u64 {
    let mut seen: BTreeSet<usize> = BTreeSet::new();
    let mut stack = vec![p];
    while let Some(q) = stack.pop() {
        let n = match q {
            BddPtr::Reg(n) | BddPtr::Compl(n) => n,
            _ => continue,
        };
        if !seen.insert(n as *const BddNode as usize) {
            continue;
        }
        if seen.len() >= limit {
            break;
        }
        stack.push(n.low);
        stack.push(n.high);
    }
    seen.len().max(1) as u64
}

fn apply<T: IteTable<'static, Ptr> + Default + 'static>(b: &'static RobddBuilder<'static, T>, r: &Resolved, pool: &[Ptr], nvars_now: usize, cube: &Cube) -> Ptr {
    let g = |i: usize| pool[r.x[i]];
    let l = VarLabel::new(r.label as u64);
    match r.kind {
        K_VAR => b.var(l, r.flag),
        K_NEWVAR => b.new_var(r.flag).1,
        K_NEWLABEL => {
            let lbl = b.new_label();
            b.var(lbl, r.flag)
        }
        K_CONST => {
            if r.flag {
                b.true_ptr()
            } else {
                b.false_ptr()
            }
        }
        K_NEG => b.negate(g(0)),
        K_AND => b.and(g(0), g(1)),
        K_OR => b.or(g(0), g(1)),
        K_XOR => b.xor(g(0), g(1)),
        K_IFF => b.iff(g(0), g(1)),
        K_ITE => b.ite(g(0), g(1), g(2)),
        K_COND => b.condition(g(0), l, r.flag),
        K_CONDMODEL => {
            let mut a: Vec<Option<bool>> = vec![None; nvars_now];
            for (j, v) in cube.free.iter().enumerate() {
                if r.bits.0 >> j & 1 == 1 {
                    a[*v] = Some(r.bits.1 >> j & 1 == 1);
                }
            }
            b.condition_model(g(0), &crate::worlds::bdd::model_with_history(&a, r.flag, r.bits.0 ^ r.bits.1.rotate_left(3)))
        }
        K_EXISTS => b.exists(g(0), l),
        K_COMPOSE => b.compose(g(0), l, g(1)),
        K_ANDLST => b.and_lst(&list_items(&r.x, r.list_len).iter().map(|i| pool[*i]).collect::<Vec<_>>()),
        K_ORLST => b.or_lst(&list_items(&r.x, r.list_len).iter().map(|i| pool[*i]).collect::<Vec<_>>()),
        K_COMPILECNF => {
            let clauses: Vec<Vec<rsdd::repr::Literal>> = cnf_of(r.bits.0 as u64 | (r.bits.1 as u64) << 32, &cube.used, r.label)
                .iter()
                .map(|c| c.iter().map(|(v, p)| rsdd::repr::Literal::new(VarLabel::new(*v as u64), *p)).collect())
                .collect();
            b.compile_cnf(&rsdd::repr::Cnf::new(&clauses))
        }
        _ => unreachable!(),
    }
}

fn model_of(r: &Resolved, ms: &[M], cube: &Cube) -> M {
    let g = |i: usize| ms[r.x[i]];
    match r.kind {
        K_VAR | K_NEWVAR | K_NEWLABEL => cube.lit(r.label, r.flag),
        K_CONST => [if r.flag { tt::TRUE } else { tt::FALSE }; NB],
        K_NEG => m_map(g(0), |a| !a),
        K_AND => m_zip(g(0), g(1), |a, b| a & b),
        K_OR => m_zip(g(0), g(1), |a, b| a | b),
        K_XOR => m_zip(g(0), g(1), |a, b| a ^ b),
        K_IFF => m_zip(g(0), g(1), tt::iff),
        K_ITE => m_zip3(g(0), g(1), g(2), tt::ite),
        K_COND => {
            let j = cube.pos[&r.label];
            m_map(g(0), |a| tt::restrict(a, j, r.flag))
        }
        K_CONDMODEL => m_map(g(0), |mut a| {
            for j in 0..cube.free.len() {
                if r.bits.0 >> j & 1 == 1 {
                    a = tt::restrict(a, j, r.bits.1 >> j & 1 == 1);
                }
            }
            a
        }),
        K_EXISTS => {
            let j = cube.pos[&r.label];
            m_map(g(0), |a| tt::exists(a, j))
        }
        K_COMPOSE => {
            let j = cube.pos[&r.label];
            m_zip(g(0), g(1), |f, gg| tt::compose_doc(f, j, gg))
        }
        K_COMPILECNF => cnf_of(r.bits.0 as u64 | (r.bits.1 as u64) << 32, &cube.used, r.label).iter().fold([tt::TRUE; NB], |acc, c| {
            let cl = c.iter().fold([tt::FALSE; NB], |a, (v, p)| m_zip(a, cube.lit(*v, *p), |x, y| x | y));
            m_zip(acc, cl, |x, y| x & y)
        }),
        K_ANDLST => list_items(&r.x, r.list_len).iter().fold([tt::TRUE; NB], |a, i| m_zip(a, ms[*i], |x, y| x & y)),
        K_ORLST => list_items(&r.x, r.list_len).iter().fold([tt::FALSE; NB], |a, i| m_zip(a, ms[*i], |x, y| x | y)),
        _ => unreachable!(),
    }
}

fn wide(r: &mut Rng) -> u128 {
    ((r.next() as u128) << 64) | r.next() as u128
}

fn show(m: &M) -> String {
    format!("{:08x}..|{:08x}..|{:08x}..|{:08x}..", (m[0] >> 96) as u32, (m[1] >> 96) as u32, (m[2] >> 96) as u32, (m[3] >> 96) as u32)
}

fn run<T: IteTable<'static, Ptr> + Default + 'static>(plan: &Plan, ctx: &mut Ctx) -> R {
    let n0 = plan.get("nvars0").clamp(8, 200_000) as usize;
    let mut perm: Vec<usize> = (0..n0).collect();
    if plan.get_or("linear_order", 0) == 0 {
        Rng::new(plan.get("order_seed") as u64).shuffle(&mut perm);
    }
    let labels: Vec<VarLabel> = perm.iter().map(|v| VarLabel::new(*v as u64)).collect();
    let order = VarOrder::new(&labels);
    let b: &'static RobddBuilder<'static, T> = Box::leak(Box::new(RobddBuilder::<T>::new(order.clone())));
    let twin_on = ctx.wants("C16") && plan.get_or("twin", 1) != 0;
    let twin: Option<&'static RobddBuilder<'static, AllIteTable<Ptr>>> = if twin_on {
        rsdd::verif::set_knobs(Some(16384), None);
        let t = Box::leak(Box::new(RobddBuilder::<AllIteTable<Ptr>>::new(order)));
        let tc = plan.get_or("table_cap", 0);
        let lp = plan.get_or("lru_pow", -1);
        rsdd::verif::set_knobs(if tc == 0 { None } else { Some(tc as usize) }, if lp < 0 { None } else { Some(lp as usize) });
        Some(&*t)
    } else {
        None
    };
    // the sampled sub-cube
    let mut cr = Rng::new(plan.get("cube_seed") as u64);
    let mut slot: Vec<u8> = vec![255; n0 + 8];
    let mut used: Vec<usize> = if n0 <= 120 {
        (0..n0).collect()
    } else {
        // many variables: operations mention ~60 of them, chosen near the places where narrow integer
        // types or bit-set words wrap (and pairs that collide modulo those sizes), plus random ones
        let mut u: Vec<usize> = Vec::new();
        for base in [0usize, 31, 63, 127, 255, 32767, 65535] {
            for d in 0..3 {
                u.push(base + d);
            }
        }
        for _ in 0..8 {
            let k = cr.below(n0 as u64) as usize;
            u.push(k);
            u.push(k + 256);
            u.push(k + 65536);
        }
        for _ in 0..20 {
            u.push(cr.below(n0 as u64) as usize);
        }
        u.retain(|v| *v < n0);
        // the list above are *levels* (positions in the order): narrow level types collide there; use the
        // variables that sit at those levels, plus the labels with the same numbers
        let by_level: Vec<usize> = u.iter().map(|lvl| perm[*lvl]).collect();
        u.truncate(30);
        u.extend(by_level);
        u.sort_unstable();
        u.dedup();
        u.truncate(100);
        u
    };
    for (j, v) in used.iter().enumerate() {
        slot[*v] = j as u8;
    }
    let mut vars: Vec<usize> = used.clone();
    cr.shuffle(&mut vars);
    let free: Vec<usize> = vars[..7].to_vec();
    let mut cube = Cube {
        pos: free.iter().enumerate().map(|(j, v)| (*v, j)).collect(),
        free,
        base: [wide(&mut cr), wide(&mut cr), wide(&mut cr), wide(&mut cr)],
        slot,
        used: Vec::new(),
    };
    cube.used = std::mem::take(&mut used);

    let mut pool: Vec<Ptr> = Vec::new();
    let mut twin_pool: Vec<Ptr> = Vec::new();
    let mut ms: Vec<M> = Vec::new();
    // node count per handle (capped), used only to keep a single operation's cost bounded
    let mut sz: Vec<u64> = Vec::new();
    let mut own: Vec<Vec<usize>> = vec![Vec::new(); 4];
    let mut history: Vec<Resolved> = Vec::new();
    let mut nvars_now = n0;
    let max_vars = n0 + if n0 <= 120 { 3.min(126usize.saturating_sub(n0)) } else { 3 };
    let mut shape_checked: BTreeSet<usize> = BTreeSet::new();
    let (mut sig_a, mut sig_b) = (BTreeMap::new(), BTreeMap::new());
    let mut nonconst = false;
    let mut stopped_growing = false;

    let resolve = |arg: i64, caller: usize, own: &Vec<Vec<usize>>, n: usize| -> usize {
        let a = arg.unsigned_abs() as usize;
        let o = &own[caller & 3];
        if a & 1 == 1 && !o.is_empty() {
            o[o.len() - 1 - ((a >> 1) % o.len())]
        } else {
            n - 1 - ((a >> 1) % n)
        }
    };

    for (i, op) in plan.ops.iter().enumerate() {
        ctx.step = i;
        ctx.ops += 1;
        ctx.cur_prop = "C01";
        if i % 16 == 15 && !stopped_growing && b.verif_nodes().len() > 150_000 {
            // cost control only: enough nodes, stop issuing operations
            stopped_growing = true;
        }
        if stopped_growing {
            break;
        }
        let caller = (op.c & 3) as usize;
        let n = pool.len();
        let mut kind = op.k;
        if n == 0 && !matches!(kind, K_VAR | K_NEWVAR | K_NEWLABEL | K_CONST | K_COMPILECNF) {
            kind = K_VAR;
        }
        if matches!(kind, K_NEWVAR | K_NEWLABEL) && nvars_now >= max_vars {
            kind = K_VAR;
        }
        let mut r = Resolved { kind, x: [0; 3], label: 0, flag: op.a[3] & 1 == 1, bits: (0, 0), list_len: LIST_LENS[(op.a[3].unsigned_abs() as usize >> 1) % LIST_LENS.len()], result: None };
        let free_label = |a: i64| cube.free[a.unsigned_abs() as usize % cube.free.len()];
        match kind {
            K_VAR => r.label = cube.used[(op.a[0].unsigned_abs() as usize) % cube.used.len()],
            K_COMPILECNF => {
                r.bits = (op.a[0] as u32, op.a[1] as u32);
                r.label = cube.used.len();
            }
            K_NEWVAR | K_NEWLABEL => r.label = nvars_now,
            K_CONST => {}
            K_NEG => r.x[0] = resolve(op.a[0], caller, &own, n),
            K_AND | K_OR | K_XOR | K_IFF | K_EQ => {
                r.x[0] = resolve(op.a[0], caller, &own, n);
                r.x[1] = resolve(op.a[1], caller, &own, n);
            }
            K_ITE | K_ANDLST | K_ORLST => {
                r.x[0] = resolve(op.a[0], caller, &own, n);
                r.x[1] = resolve(op.a[1], caller, &own, n);
                r.x[2] = resolve(op.a[2], caller, &own, n);
            }
            K_COND | K_EXISTS => {
                r.x[0] = resolve(op.a[0], caller, &own, n);
                r.label = free_label(op.a[1]);
            }
            K_COMPOSE => {
                r.x[0] = resolve(op.a[0], caller, &own, n);
                r.x[1] = resolve(op.a[1], caller, &own, n);
                r.label = free_label(op.a[2]);
            }
            K_CONDMODEL => {
                r.x[0] = resolve(op.a[0], caller, &own, n);
                r.bits = ((op.a[1] as u32) & 127, (op.a[2] as u32) & 127);
            }
            K_REISSUE => {
                if history.is_empty() {
                    continue;
                }
                let j = (op.a[0].unsigned_abs() as usize) % history.len();
                let mut h = history[j];
                if h.result.is_none() {
                    continue;
                }
                if matches!(h.kind, K_NEWVAR | K_NEWLABEL) {
                    h.kind = K_VAR;
                }
                let p = apply(b, &h, &pool, nvars_now, &cube);
                let prev = pool[h.result.unwrap()];
                ctx.ev(500 + K_REISSUE as u64, &[j as u64, addr(p) as u64, p.is_neg() as u64]);
                ctx.check("C02", "bdd-reissue-pointer-equal", b.eq(p, prev) && p == prev, || {
                    format!("re-issuing `{}` with the same operands returned {:?}@{:#x}, earlier result was {:?}@{:#x}", KNAMES[h.kind as usize], pkey(p).1, addr(p), pkey(prev).1, addr(prev))
                })?;
                if let Some(t) = twin {
                    let was = rsdd::verif::set_faults_enabled(false);
                    let _ = apply(t, &h, &twin_pool, nvars_now, &cube);
                    rsdd::verif::set_faults_enabled(was);
                }
                continue;
            }
            K_AUDIT => {
                let h = resolve(op.a[0], caller, &own, n);
                let m1 = cube.read(pool[h], i % 2 == 0);
                ctx.ev(500 + K_AUDIT as u64, &[h as u64, tt::lo(m1[0]), tt::hi(m1[3])]);
                ctx.check("C01", "bdd-denotation-drifted", m1 == ms[h], || format!("handle h{h} read {} when created and {} now (512 sampled points)", show(&ms[h]), show(&m1)))?;
                continue;
            }
            _ => continue,
        }
        {
            // cost control only: the work of one apply is bounded by the product of its operands' sizes
            let nops = match kind {
                K_NEG | K_COND | K_EXISTS | K_CONDMODEL => 1,
                K_AND | K_OR | K_XOR | K_IFF | K_COMPOSE => 2,
                K_ITE | K_ANDLST | K_ORLST => 3,
                _ => 0,
            };
            let product = (0..nops).fold(1u64, |a, j| a.saturating_mul(sz[r.x[j]]));
            if product > 1_500_000 {
                ctx.count("operands-too-big-operation-skipped", 1);
                continue;
            }
        }
        if kind == K_EQ {
            ctx.cur_prop = "C02";
            let (pa, pb) = (pool[r.x[0]], pool[r.x[1]]);
            let e = b.eq(pa, pb);
            ctx.ev(500 + K_EQ as u64, &[r.x[0] as u64, r.x[1] as u64, e as u64]);
            // equal pointers must agree on every sampled point (the converse is not decidable from samples)
            ctx.check("C02", "bdd-eq-but-different-function", !e || ms[r.x[0]] == ms[r.x[1]], || {
                format!("eq(h{}, h{}) is true but the diagrams differ on sampled points: {} vs {}", r.x[0], r.x[1], show(&ms[r.x[0]]), show(&ms[r.x[1]]))
            })?;
            ctx.check("C02", "bdd-eq-is-pointer-identity", e == (pa == pb), || "eq() disagrees with pointer identity".to_string())?;
            history.push(r);
            continue;
        }

        if matches!(kind, K_NEWVAR | K_NEWLABEL) {
            // the new label gets the next free slot before it is used
            let s_new = cube.used.len() as u8;
            while cube.slot.len() <= r.label {
                cube.slot.push(255);
            }
            cube.slot[r.label] = s_new;
            cube.used.push(r.label);
        }
        let p = apply(b, &r, &pool, nvars_now, &cube);
        if matches!(kind, K_NEWVAR | K_NEWLABEL) {
            nvars_now += 1;
        }
        let want = model_of(&r, &ms, &cube);
        let hidx = pool.len();
        r.result = Some(hidx);
        history.push(r);
        pool.push(p);
        ms.push(want);
        sz.push(dag_size(p, 100_000));
        own[caller].push(hidx);
        if !p.is_const() {
            nonconst = true;
        }
        ctx.ev(500 + kind as u64, &[hidx as u64, addr(p) as u64, p.is_neg() as u64, tt::lo(want[0]), tt::hi(want[1]), tt::lo(want[2]), tt::hi(want[3])]);
        ctx.note(|| format!("[{i}] c{caller} h{hidx} = {}(x{} {} h{} h{} h{}) -> {}{:#x}  samples={}", KNAMES[kind as usize], r.label, r.flag, r.x[0], r.x[1], r.x[2], if p.is_neg() { "~" } else { "" }, addr(p), show(&want)));

        // C01 on the 512 sampled points, alternating between the two readers
        let got = cube.read(p, hidx % 2 == 1);
        ctx.check("C01", "bdd-result-function", got == want, || {
            format!("`{}` disagrees with its definition on the sampled sub-cube ({} variables, free {:?}): got {}, expected {}", KNAMES[kind as usize], nvars_now, cube.free, show(&got), show(&want))
        })?;

        // C02: shape of every new reachable node
        if ctx.wants("C02") {
            ctx.cur_prop = "C02";
            let mut stack = vec![p];
            let cur_order = b.order();
            while let Some(q) = stack.pop() {
                if let BddPtr::Reg(nd) | BddPtr::Compl(nd) = q {
                    let a = nd as *const BddNode as usize;
                    if !shape_checked.insert(a) {
                        continue;
                    }
                    ctx.check("C02", "bdd-high-edge-regular", !nd.high.is_neg() && !nd.high.is_false(), || format!("node {a:#x} has a complemented or false high edge"))?;
                    ctx.check("C02", "bdd-no-redundant-node", nd.low != nd.high, || format!("node {a:#x} has identical children"))?;
                    for c in [nd.low, nd.high] {
                        if let Some(cv) = c.var_safe() {
                            ctx.check("C02", "bdd-order-respected", cur_order.lt(nd.var, cv), || format!("node {a:#x}: var {} not before child var {}", nd.var.value(), cv.value()))?;
                        }
                    }
                    stack.push(nd.low);
                    stack.push(nd.high);
                }
            }
        }
        if let Some(t) = twin {
            ctx.cur_prop = "C16";
            let was = rsdd::verif::set_faults_enabled(false);
            let q = apply(t, &r, &twin_pool, nvars_now, &cube);
            rsdd::verif::set_faults_enabled(was);
            twin_pool.push(q);
            let (sb, sa) = (sig(p, &mut sig_b), sig(q, &mut sig_a));
            ctx.check("C16", "bdd-twin-same-canonical-diagram", sb == sa, || {
                format!("`{}`: builder under test returned structure {sb:#x}, the cache-everything fault-free twin returned {sa:#x}", KNAMES[kind as usize])
            })?;
        }
    }
    // ---- end of run
    ctx.step = plan.ops.len();
    ctx.cur_prop = "C01";
    for (h, p) in pool.iter().enumerate() {
        if h % 4 == 0 || pool.len() < 40 {
            let m1 = cube.read(*p, h % 2 == 0);
            ctx.check("C01", "bdd-denotation-drifted", m1 == ms[h], || format!("at end of run handle h{h} reads {} but read {} when created", show(&m1), show(&ms[h])))?;
        }
    }
    if ctx.wants("C02") {
        ctx.cur_prop = "C02";
        let all = b.verif_nodes();
        let mut triples: BTreeMap<(u64, (usize, u8), (usize, u8)), usize> = BTreeMap::new();
        for nd in all.iter() {
            let a = *nd as *const BddNode as usize;
            let k = (nd.var.value(), pkey(nd.low), pkey(nd.high));
            if let Some(prev) = triples.insert(k, a) {
                ctx.check("C02", "bdd-table-duplicate-triple", false, || format!("the unique table stores the triple (var {}, {:x?}, {:x?}) twice: {prev:#x} and {a:#x}", k.0, k.1, k.2))?;
            }
        }
        let n_all = all.len();
        for nd in all.iter() {
            let a = *nd as *const BddNode as usize;
            let back = b.get_or_insert(BddNode::new(nd.var, nd.low, nd.high));
            ctx.check("C02", "bdd-node-relookup", matches!(back, BddPtr::Reg(_)) && addr(back) == a, || {
                format!("looking up the triple of stored node {a:#x} again returned {:?}@{:#x}: the unique table lost it ({n_all} nodes stored)", pkey(back).1, addr(back))
            })?;
        }
        ctx.count("nodes-in-table", n_all as u64);
    }
    ctx.count("variables", nvars_now as u64);
    ctx.ev(599, &[pool.len() as u64, nvars_now as u64]);
    ctx.nontrivial = nonconst;
    ctx.states.extend(ms.iter().map(|m| mix(mix(tt::lo(m[0]), tt::hi(m[1])), mix(tt::lo(m[2]), tt::hi(m[3])))));
    Ok(())
}

impl World for BddMidWorld {
    fn name(&self) -> &'static str {
        "bddmid"
    }
    fn properties(&self) -> &'static [&'static str] {
        &["C01", "C02", "C16"]
    }

    fn generate(&self, run_seed: u64, target: &str, thorough: bool) -> Plan {
        let mut cfg = Cfg::new();
        let mut c = Rng::stream(run_seed, "config");
        let mut o = Rng::stream(run_seed, "ops");
        let mut s = Rng::stream(run_seed, "schedule");
        let mut p = Rng::stream(run_seed, "placement");
        // usually 8-24 variables; one run in four 33-100 (labels beyond the 32- and 64-bit word boundaries)
        let many = c.below(4) == 0;
        // one run in forty: tens of thousands of variables (levels beyond 2^15 and 2^16)
        let huge = c.below(40) == 0;
        cfg.insert("nvars0".into(), if huge { *c.pick(&[300i64, 33_000, 65_530, 65_540, 70_100, 131_080]) } else if many { 33 + c.below(68) as i64 } else { 8 + c.below(17) as i64 });
        cfg.insert("order_seed".into(), (c.next() >> 2) as i64);
        cfg.insert("linear_order".into(), (c.below(6) == 0) as i64);
        cfg.insert("cube_seed".into(), (c.next() >> 2) as i64);
        let lossy = if target == "C16" { c.below(8) != 0 } else { c.bool() };
        cfg.insert("cache".into(), lossy as i64);
        cfg.insert("table_cap".into(), *c.pick(&[0i64, 4, 16, 64, 256, 1024, 4096]));
        cfg.insert("lru_pow".into(), *c.pick(&[-1i64, 0, 2, 4, 6, 8, 10]));
        cfg.insert("place_off".into(), (p.below(4096) * 16) as i64);
        cfg.insert("place_pad_every".into(), p.below(5) as i64);
        cfg.insert("place_pad_bytes".into(), (p.below(8) * 16) as i64);
        let mut rates = [0u16; NUM_SITES];
        use rsdd::verif::Site::*;
        for site in [IteCacheForget, TableGrowNow, LruGrowNow, CondMemoForget] {
            if c.below(3) == 0 {
                rates[site as usize] = *c.pick(&[2u16, 16, 64]);
            }
        }
        let ncallers = 1 + c.below(4);
        let mut w = [0u32; NKINDS];
        let base = [10, 2, 1, 5, 10, 8, 7, 6, 9, 5, 3, 4, 3, 2, 2, 3, 4, 3, 1, 1];
        for k in 0..NKINDS {
            w[k] = if c.below(6) == 0 { 0 } else { base[k] * (1 + c.below(3) as u32) };
        }
        w[K_VAR as usize] = w[K_VAR as usize].max(6);
        let len = 20 + o.below(if thorough { 260 } else { 130 });
        let mut ops = Vec::new();
        // start from literals of many different variables
        for _ in 0..(4 + c.below(8)) {
            ops.push(Op { c: s.below(ncallers) as u8, k: K_VAR, a: [o.below(128) as i64, 0, 0, o.below(2) as i64] });
        }
        for _ in 0..len {
            let caller = s.below(ncallers) as u8;
            let k = o.weighted(&w) as u8;
            let a = match k {
                K_VAR => [o.below(128) as i64, 0, 0, o.below(2) as i64],
                K_NEWVAR | K_NEWLABEL | K_CONST => [0, 0, 0, o.below(2) as i64],
                K_COMPILECNF => [(o.next() >> 33) as i64, (o.next() >> 33) as i64, 0, 0],
                K_COND | K_EXISTS => [gen_operand(&mut o), o.below(8) as i64, 0, o.below(2) as i64],
                K_COMPOSE => [gen_operand(&mut o), gen_operand(&mut o), o.below(8) as i64, 0],
                K_CONDMODEL => [gen_operand(&mut o), o.below(128) as i64, o.below(128) as i64, o.below(2) as i64],
                K_REISSUE => [o.below(1 << 16) as i64, 0, 0, 0],
                K_ANDLST | K_ORLST => [gen_operand(&mut o), gen_operand(&mut o), gen_operand(&mut o), (o.below(14) << 1) as i64],
                _ => [gen_operand(&mut o), gen_operand(&mut o), gen_operand(&mut o), 0],
            };
            ops.push(Op { c: caller, k, a });
        }
        Plan {
            world: "bddmid".into(),
            target: target.into(),
            seed: run_seed,
            cfg,
            ops,
            faults: Faults::Random { seed: mix(run_seed, 87), rates },
        }
    }

    fn execute(&self, plan: &Plan, ctx: &mut Ctx) -> R {
        if plan.get("cache") != 0 {
            run::<LruIteTable<Ptr>>(plan, ctx)
        } else {
            run::<AllIteTable<Ptr>>(plan, ctx)
        }
    }

    fn simplify_cfg(&self, plan: &Plan) -> Vec<Cfg> {
        let mut v = Vec::new();
        for (k, val) in [("place_off", 0), ("place_pad_every", 0), ("place_pad_bytes", 0), ("lru_pow", -1), ("table_cap", 0), ("cache", 0)] {
            if plan.get_or(k, val) != val {
                let mut c = plan.cfg.clone();
                c.insert(k.into(), val);
                v.push(c);
            }
        }
        let n = plan.get_or("nvars0", 8);
        if n > 8 {
            let mut c = plan.cfg.clone();
            c.insert("nvars0".into(), (n - 4).max(8));
            v.push(c);
        }
        v
    }

    fn render_op(&self, op: &Op) -> String {
        format!("c{}: {} {:?}", op.c & 3, KNAMES.get(op.k as usize).unwrap_or(&"?"), op.a)
    }
}

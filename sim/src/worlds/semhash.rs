//! `semhash` world (C11).
//!
//! (a) Denotational: the same history is executed in lock-step on BDD builders
//! under two orders, a compressed and an uncompressed SDD builder under two
//! vtrees, and top-down builders under two decision orders; every result's
//! `semantic_hash` (three exported primes) must equal the defining sum
//! sum_{models} prod weights mod P computed from the diagram's own truth table
//! with the library's public weight map; complements hash to 1 - h; cached
//! hashes (requested at arbitrary points of the history) equal recomputation.
//! (b) Hash-identified builders: `SemanticSddBuilder<U64_LARGEST>` and
//! `SemanticDecisionNNFBuilder<U64_LARGEST>` must return the right function
//! and never judge two equal functions different.

use crate::core::*;
use crate::rng::{mix, Rng};
use crate::tt::{self, TT};
use crate::worlds::bdd::{self as wb, gen_operand, perm_from_index};
use crate::worlds::sat::{clause_of, gen_clause, K_CLAUSE};
use crate::worlds::sdd as ws;
use rsdd::builder::bdd::RobddBuilder;
use rsdd::builder::cache::AllIteTable;
use rsdd::builder::decision_nnf::{DecisionNNFBuilder, SemanticDecisionNNFBuilder, StandardDecisionNNFBuilder};
use rsdd::builder::sdd::{CompressionSddBuilder, SddBuilder, SemanticSddBuilder};
use rsdd::builder::{BottomUpBuilder, TopDownBuilder};
use rsdd::constants::primes::{U32_SMALL, U32_TINY, U64_LARGEST};
use rsdd::repr::{create_semantic_hash_map, BddPtr, Cnf, DDNNFPtr, Literal, SddPtr, VarLabel, VarOrder, WmcParams};
use rsdd::util::semirings::FiniteField;
use std::collections::BTreeMap;

pub struct SemHashWorld;

const B_VAR: u8 = 1;
const B_NEG: u8 = 2;
const B_AND: u8 = 3;
const B_OR: u8 = 4;
const B_COND: u8 = 5;
const B_EXISTS: u8 = 6;
const B_COMPILE: u8 = 7;
const T_COMPILE: u8 = 8;
const T_NEG: u8 = 9;
const T_COND: u8 = 10;
const H_CACHED: u8 = 11;
const B_EQ: u8 = 12;
/// the builders' statistics entry points (public calls that walk the stores)
const H_STATS: u8 = 13;
/// copy a stored top-down node, edit the copy through its public fields, hand it to get_or_insert
const H_CLONE_EDIT: u8 = 14;
const NK: usize = 15;
const KN: [&str; NK] = ["clause", "var", "negate", "and", "or", "condition", "exists", "compile_cnf", "compile_cnf_topdown", "negate(td)", "condition(td)", "cached_hash", "eq", "statistics", "clone+edit+get_or_insert"];

type BP = BddPtr<'static>;
type SP = SddPtr<'static>;

/// per-prime table: weight of every total assignment under the library's public weight map
struct Field<const P: u128> {
    map: WmcParams<FiniteField<P>>,
    w: Vec<u128>,
}

impl<const P: u128> Field<P> {
    /// `special` = None: the library's public weight map; Some(seed): a caller-made map that is just as valid
    /// (low + high = 1 in the field for every variable) but built from the values arithmetic shortcuts get wrong:
    /// 0 and 1, p-1 and 2, the two halves (p+1)/2, 3 and p-2, and a few random pairs
    fn new(n: usize, special: Option<u64>) -> Field<P> {
        let map = match special {
            None => create_semantic_hash_map::<P>(n),
            Some(seed) => {
                let mut r = crate::rng::Rng::new(seed ^ (P as u64));
                let mut m = std::collections::HashMap::new();
                for v in 0..n {
                    let lo: u128 = match r.below(8) {
                        0 => 0,
                        1 => 1,
                        2 => P - 1,
                        3 => 2,
                        4 => (P + 1) / 2,
                        5 => 3,
                        6 => P - 2,
                        _ => (r.next() as u128) % P,
                    };
                    let hi = (P + 1 - lo) % P;
                    m.insert(VarLabel::new(v as u64), (FiniteField::<P>::new(lo), FiniteField::<P>::new(hi)));
                }
                WmcParams::new(m)
            }
        };
        let mut w = Vec::with_capacity(1 << n);
        for m in 0..(1u32 << n) {
            let mut x: u128 = 1;
            for v in 0..n {
                let (l, h) = map.var_weight(VarLabel::new(v as u64));
                let f = if (m >> v) & 1 == 1 { h.value() } else { l.value() };
                x = (x % P) * (f % P) % P;
            }
            w.push(x);
        }
        Field { map, w }
    }
    /// the defining sum of the semantic hash of the function with table `t` over n variables
    fn defsum(&self, t: TT) -> u128 {
        let mut s: u128 = 0;
        for (m, w) in self.w.iter().enumerate() {
            if (t >> m) & 1 == 1 {
                s = (s + w) % P;
            }
        }
        s
    }
    /// check one diagram: hash = defining sum, complement hashes to 1 - h
    fn check<'a, T: DDNNFPtr<'a>>(&self, ctx: &mut Ctx, p: &T, t: TT, what: &str) -> R {
        let h = p.semantic_hash(&self.map).value();
        let want = self.defsum(t);
        ctx.check("C11", "semantic-hash-is-defining-sum", h == want, || {
            format!("{what}: semantic_hash mod {P} = {h}, the defining sum over the models of {} is {want}", tt::show(t))
        })?;
        let hn = p.neg().semantic_hash(&self.map).value();
        let wantn = (1 + P - h) % P;
        ctx.check("C11", "semantic-hash-of-negation", hn == wantn, || {
            format!("{what}: the negation hashes to {hn} mod {P}, expected 1 - {h} = {wantn}")
        })
    }
}

fn resolve(arg: i64, n: usize) -> usize {
    n - 1 - ((arg.unsigned_abs() as usize >> 1) % n)
}

fn cnf_tt(clauses: &[Vec<(usize, bool)>]) -> TT {
    let mut t = tt::TRUE;
    for c in clauses {
        let mut ct = tt::FALSE;
        for (v, p) in c {
            ct |= tt::lit(*v, *p);
        }
        t &= ct;
    }
    t
}

/// scenario "literals": a hash-identified top-down builder over tens of thousands of variables must hand out,
/// for every literal, a node that denotes that literal (it identifies nodes by a 64-bit hash of the function)
fn run_literals(plan: &Plan, ctx: &mut Ctx) -> R {
    ctx.cur_prop = "C11";
    let n = plan.get("nvars").clamp(100, 300_000) as usize;
    let td: &'static SemanticDecisionNNFBuilder<'static, U64_LARGEST> = Box::leak(Box::new(SemanticDecisionNNFBuilder::new(VarOrder::linear_order(n))));
    let mut r = Rng::new(plan.get("vt_seed") as u64);
    let mut seen: BTreeMap<usize, usize> = BTreeMap::new();
    let count = plan.get_or("lit_count", n as i64).min(n as i64) as usize;
    let stride = (r.below(n as u64) as usize) | 1;
    for i in 0..count {
        let v = (i * stride + 7) % n;
        let pol = r.bool();
        let p = td.var(VarLabel::new(v as u64), pol);
        ctx.ops += 1;
        // structural reading: a literal is a decision on its own variable with constant children
        let ok = match p {
            BddPtr::Reg(nd) | BddPtr::Compl(nd) => {
                let (lo, hi) = (p.low(), p.high());
                nd.var.value_usize() == v && lo.is_const() && hi.is_const() && hi.is_true() == pol && lo.is_true() != pol
            }
            _ => false,
        };
        ctx.check("C11", "semantic-topdown-builder-result-function", ok, || {
            format!("SemanticDecisionNNFBuilder over {n} variables: var(x{v}, {pol}) returned a node that does not denote that literal (it decides x{:?})", p.var_safe().map(|l| l.value()))
        })?;
        // two different variables never share a node
        let a = wb::addr(p);
        if let Some(prev) = seen.insert(a, v) {
            ctx.check("C11", "semantic-topdown-builder-result-function", prev == v, || format!("var(x{v}) and var(x{prev}) share the node {a:#x}"))?;
        }
    }
    ctx.ev(290, &[n as u64, count as u64, seen.len() as u64]);
    ctx.count("literal-scenario-variables", n as u64);
    ctx.nontrivial = true;
    ctx.states.push(n as u64);
    Ok(())
}

/// scenario "compile": a mid-size CNF compiled by the hash-identified SDD builder (its apply cache sees ~10^5 keys)
/// must denote the same function as the BDD compiled from the same CNF
fn run_compile(plan: &Plan, ctx: &mut Ctx) -> R {
    ctx.cur_prop = "C11";
    let n = plan.get("nvars").clamp(8, 26) as usize;
    let clauses = crate::worlds::sat::clauses_of_plan(&plan.ops, n);
    let lits: Vec<Vec<Literal>> = clauses.iter().filter(|c| !c.is_empty()).map(|c| c.iter().map(|(v, p)| Literal::new(VarLabel::new(*v as u64), *p)).collect()).collect();
    let mut all = lits.clone();
    all.push(vec![Literal::new(VarLabel::new(n as u64 - 1), true), Literal::new(VarLabel::new(n as u64 - 1), false)]);
    let cnf = Cnf::new(&all);
    let order: Vec<VarLabel> = (0..n).map(|v| VarLabel::new(v as u64)).collect();
    // fully balanced vtree: 10^6-10^7 recursive calls and ~10^5 apply-cache keys at 17-20 variables (seconds per run);
    // random vtree shapes can take minutes and are not used here
    let sem: &'static SemanticSddBuilder<'static, U64_LARGEST> = Box::leak(Box::new(SemanticSddBuilder::new(ws::build_vtree_from_order(&order, plan.get_or("compile_vt_shape", 3), plan.get("vt_seed") as u64))));
    let bdd: &'static RobddBuilder<'static, AllIteTable<BP>> = Box::leak(Box::new(RobddBuilder::new(VarOrder::linear_order(n))));
    let s = sem.compile_cnf(&cnf);
    let b = bdd.compile_cnf(&cnf);
    ctx.ops += 2;
    let map = create_semantic_hash_map::<U64_LARGEST>(n);
    let (hs, hb) = (s.semantic_hash(&map).value(), b.semantic_hash(&map).value());
    ctx.ev(291, &[n as u64, clauses.len() as u64, hb as u64]);
    // equal functions hash equally (C11 a), so different hashes mean different functions
    ctx.check("C11", "semantic-sdd-builder-result-function", hs == hb, || {
        format!("SemanticSddBuilder compile_cnf of a {n}-variable, {}-clause CNF hashes to {hs}, the BDD compiled from the same CNF to {hb}: they denote different functions", clauses.len())
    })?;
    // and on 256 sampled assignments
    let mut r = Rng::new(plan.get("vt_seed") as u64 ^ 0x77);
    for _ in 0..256 {
        let a: Vec<bool> = (0..n).map(|_| r.bool()).collect();
        let (es, eb) = (s.evaluate(&a), b.evaluate(&a));
        let want = clauses.iter().all(|c| c.iter().any(|(v, p)| a[*v] == *p));
        ctx.check("C11", "semantic-sdd-builder-result-function", es == want && eb == want, || format!("compile_cnf disagrees with the CNF on a sampled assignment (semantic SDD {es}, BDD {eb}, CNF {want})"))?;
    }
    ctx.count("compile-scenario-clauses", clauses.len() as u64);
    ctx.nontrivial = true;
    ctx.states.push(hb as u64);
    Ok(())
}

fn run(plan: &Plan, ctx: &mut Ctx) -> R {
    match plan.get_or("scenario", 0) {
        1 => return run_literals(plan, ctx),
        2 => return run_compile(plan, ctx),
        _ => {}
    }
    ctx.cur_prop = "C11";
    let n = plan.get("nvars").clamp(1, 6) as usize;
    // one run in four hashes under caller-made weight maps (fixed for the whole run) instead of the library's
    let special = if plan.get_or("special_map", 0) != 0 { Some(plan.get_or("map_seed", 1) as u64) } else { None };
    let f_tiny: Field<U32_TINY> = Field::new(n, special);
    let f_small: Field<U32_SMALL> = Field::new(n, special);
    let f_large: Field<U64_LARGEST> = Field::new(n, special);
    // the hash-identified builders memoise under their own (the library's) map: their cached hashes are compared under that one
    let lib_large: Field<U64_LARGEST> = Field::new(n, None);

    let order_of = |idx: u64| {
        let perm = perm_from_index(n, idx);
        VarOrder::new(&perm.iter().map(|v| VarLabel::new(*v as u64)).collect::<Vec<_>>())
    };
    // ---- the systems
    let bdd1: &'static RobddBuilder<'static, AllIteTable<BP>> = Box::leak(Box::new(RobddBuilder::new(order_of(plan.get("ord1") as u64))));
    let bdd2: &'static RobddBuilder<'static, AllIteTable<BP>> = Box::leak(Box::new(RobddBuilder::new(order_of(plan.get("ord2") as u64))));
    let sdd_c: &'static CompressionSddBuilder<'static> =
        Box::leak(Box::new(CompressionSddBuilder::new(ws::build_vtree(n, plan.get("vt1_shape"), plan.get("vt_seed") as u64, plan.get("ord1") as u64))));
    let sdd_u: &'static CompressionSddBuilder<'static> = {
        let mut b = CompressionSddBuilder::new(ws::build_vtree(n, plan.get("vt2_shape"), plan.get("vt_seed") as u64 ^ 0x55, plan.get("ord2") as u64));
        b.set_compression(false);
        Box::leak(Box::new(b))
    };
    let sem_compress = plan.get_or("sem_compress", 0) != 0;
    let sem: &'static SemanticSddBuilder<'static, U64_LARGEST> = {
        let mut b = SemanticSddBuilder::new(ws::build_vtree(n, plan.get("vt3_shape"), plan.get("vt_seed") as u64 ^ 0xAA, plan.get("ord3") as u64));
        // the compression switch is part of the builder's public configuration (it must not matter to correctness)
        b.set_compression(sem_compress);
        Box::leak(Box::new(b))
    };
    // fault-free twin of the hash-identified SDD builder (C16: its apply cache must never change a result)
    let sem_twin: Option<&'static SemanticSddBuilder<'static, U64_LARGEST>> = if ctx.wants("C16") {
        let was = rsdd::verif::set_faults_enabled(false);
        let mut tb = SemanticSddBuilder::new(ws::build_vtree(n, plan.get("vt3_shape"), plan.get("vt_seed") as u64 ^ 0xAA, plan.get("ord3") as u64));
        tb.set_compression(sem_compress);
        let t = Box::leak(Box::new(tb));
        rsdd::verif::set_faults_enabled(was);
        Some(&*t)
    } else {
        None
    };
    let mut p_tw: Vec<SP> = Vec::new();
    let td_std: &'static StandardDecisionNNFBuilder<'static> = Box::leak(Box::new(StandardDecisionNNFBuilder::new(order_of(plan.get("ord3") as u64))));
    let td_sem: &'static SemanticDecisionNNFBuilder<'static, U64_LARGEST> = Box::leak(Box::new(SemanticDecisionNNFBuilder::new(order_of(plan.get("ord4") as u64))));

    // CNFs (up to 3), each mentioning every variable
    let mut groups: Vec<Vec<Vec<(usize, bool)>>> = vec![Vec::new(); 3];
    for (j, op) in plan.ops.iter().filter(|o| o.k == K_CLAUSE).enumerate() {
        let c: Vec<(usize, bool)> = clause_of(op).into_iter().map(|(v, p)| (v % n, p)).collect();
        if !c.is_empty() {
            groups[(j + op.c as usize) % 3].push(c);
        }
    }
    let cnfs: Vec<Cnf> = groups
        .iter()
        .map(|g| {
            let mut cl: Vec<Vec<Literal>> = g.iter().map(|c| c.iter().map(|(v, p)| Literal::new(VarLabel::new(*v as u64), *p)).collect()).collect();
            cl.push(vec![Literal::new(VarLabel::new(n as u64 - 1), true), Literal::new(VarLabel::new(n as u64 - 1), false)]);
            Cnf::new(&cl)
        })
        .collect();
    let cnf_tts: Vec<TT> = groups.iter().map(|g| cnf_tt(g)).collect();

    // lock-step pools of the bottom-up systems
    let mut p_b1: Vec<BP> = Vec::new();
    let mut p_b2: Vec<BP> = Vec::new();
    let mut p_sc: Vec<SP> = Vec::new();
    let mut p_su: Vec<SP> = Vec::new();
    let mut p_se: Vec<SP> = Vec::new();
    let mut model: Vec<TT> = Vec::new();
    // top-down pools
    let mut t_std: Vec<BP> = Vec::new();
    let mut t_sem: Vec<BP> = Vec::new();
    let mut t_model: Vec<TT> = Vec::new();
    let mut sem_canon: BTreeMap<TT, usize> = BTreeMap::new();
    let mut usize_cap_hit = 0u64;
    let mut tsz: BTreeMap<usize, u64> = BTreeMap::new();
    let mut big: Vec<bool> = Vec::new();
    let mut nres = 0u64;

    for (i, op) in plan.ops.iter().enumerate() {
        ctx.step = i;
        if op.k == K_CLAUSE {
            continue;
        }
        ctx.ops += 1;
        let np = model.len();
        let ntd = t_model.len();
        let mut kind = op.k;
        if np == 0 && matches!(kind, B_NEG | B_AND | B_OR | B_COND | B_EXISTS | H_CACHED | B_EQ) {
            kind = B_VAR;
        }
        if ntd == 0 && matches!(kind, T_NEG | T_COND) {
            kind = T_COMPILE;
        }
        let v = op.a[2].unsigned_abs() as usize % n;
        let lbl = VarLabel::new(v as u64);
        let flag = op.a[3] & 1 == 1;
        match kind {
            B_VAR | B_NEG | B_AND | B_OR | B_COND | B_EXISTS | B_COMPILE => {
                let (x, y) = if np > 0 { (resolve(op.a[0], np), resolve(op.a[1], np)) } else { (0, 0) };
                if np > 0 && matches!(kind, B_NEG | B_AND | B_OR | B_COND | B_EXISTS) && (big[x] || big[y]) {
                    usize_cap_hit += 1;
                    continue;
                }
                let g = op.a[0].unsigned_abs() as usize % 3;
                macro_rules! bottom_up {
                    ($b:expr, $pool:expr) => {
                        match kind {
                            B_VAR => $b.var(lbl, flag),
                            B_NEG => $b.negate($pool[x]),
                            B_AND => $b.and($pool[x], $pool[y]),
                            B_OR => $b.or($pool[x], $pool[y]),
                            B_COND => $b.condition($pool[x], lbl, flag),
                            B_EXISTS => $b.exists($pool[x], lbl),
                            _ => $b.compile_cnf(&cnfs[g]),
                        }
                    };
                }
                let m = match kind {
                    B_VAR => tt::lit(v, flag),
                    B_NEG => !model[x],
                    B_AND => model[x] & model[y],
                    B_OR => model[x] | model[y],
                    B_COND => tt::restrict(model[x], v, flag),
                    B_EXISTS => tt::exists(model[x], v),
                    _ => cnf_tts[g],
                };
                let r1 = bottom_up!(bdd1, p_b1);
                let r2 = bottom_up!(bdd2, p_b2);
                let r3 = bottom_up!(sdd_c, p_sc);
                let r4 = bottom_up!(sdd_u, p_su);
                let r5 = bottom_up!(sem, p_se);
                if let Some(tw) = sem_twin {
                    let was = rsdd::verif::set_faults_enabled(false);
                    let q = bottom_up!(tw, p_tw);
                    rsdd::verif::set_faults_enabled(was);
                    p_tw.push(q);
                    let (ta, tb) = (ws::walk(r5, &mut BTreeMap::new()), ws::walk(q, &mut BTreeMap::new()));
                    ctx.check("C16", "semantic-sdd-apply-cache-changes-result", ta == tb, || {
                        format!("SemanticSddBuilder `{}`: with its apply cache forgetting the result denotes {}, the fault-free twin's result denotes {}", KN[kind as usize], tt::show(ta), tt::show(tb))
                    })?;
                }
                p_b1.push(r1);
                p_b2.push(r2);
                p_sc.push(r3);
                p_su.push(r4);
                p_se.push(r5);
                model.push(m);
                nres += 1;
                let sz = ws::tree_size(r4, &mut tsz).max(ws::tree_size(r5, &mut tsz)).max(ws::tree_size(r3, &mut tsz));
                big.push(sz > 1500);
                let h = np;
                ctx.ev(200 + kind as u64, &[h as u64, wb::addr(r1) as u64, ws::pkey(r3).0 as u64, ws::pkey(r5).0 as u64, tt::lo(m), tt::hi(m)]);
                ctx.note(|| format!("[{i}] h{h} = {}(h{x}, h{y}, x{v}, {flag}) tt={}  sem-sdd -> {}", KN[kind as usize], tt::show(m), ws::show(r5)));
                // (a) every representation hashes to the defining sum of the function it denotes
                let t1 = wb::walk_raw(r1, &mut BTreeMap::new());
                let t2 = wb::walk_raw(r2, &mut BTreeMap::new());
                let t3 = ws::walk(r3, &mut BTreeMap::new());
                let t4 = ws::walk(r4, &mut BTreeMap::new());
                let t5 = ws::walk(r5, &mut BTreeMap::new());
                f_tiny.check(ctx, &r1, t1, "BDD (order 1)")?;
                f_small.check(ctx, &r1, t1, "BDD (order 1)")?;
                f_large.check(ctx, &r1, t1, "BDD (order 1)")?;
                f_tiny.check(ctx, &r2, t2, "BDD (order 2)")?;
                f_large.check(ctx, &r2, t2, "BDD (order 2)")?;
                f_tiny.check(ctx, &r3, t3, "compressed SDD")?;
                f_small.check(ctx, &r3, t3, "compressed SDD")?;
                f_large.check(ctx, &r3, t3, "compressed SDD")?;
                f_small.check(ctx, &r4, t4, "uncompressed SDD")?;
                f_large.check(ctx, &r4, t4, "uncompressed SDD")?;
                f_tiny.check(ctx, &r5, t5, "hash-identified SDD")?;
                f_large.check(ctx, &r5, t5, "hash-identified SDD")?;
                // (b) the hash-identified SDD builder returns the function the operation names
                ctx.check("C11", "semantic-sdd-builder-result-function", t5 == m, || {
                    format!("SemanticSddBuilder `{}` returned a diagram denoting {}, the definition gives {}", KN[kind as usize], tt::show(t5), tt::show(m))
                })?;
                // ... and never judges two equal functions different
                match sem_canon.get(&m) {
                    Some(prev) => {
                        let q = p_se[*prev];
                        ctx.check("C11", "semantic-sdd-builder-equal-functions-not-eq", sem.eq(r5, q), || {
                            format!("SemanticSddBuilder: h{h} and h{prev} both denote {} but eq() is false ({} vs {})", tt::show(m), ws::show(r5), ws::show(q))
                        })?;
                    }
                    None => {
                        sem_canon.insert(m, h);
                    }
                }
            }
            B_EQ => {
                let (x, y) = (resolve(op.a[0], np), resolve(op.a[1], np));
                let e = sem.eq(p_se[x], p_se[y]);
                ctx.ev(200 + kind as u64, &[x as u64, y as u64, e as u64]);
                if model[x] == model[y] {
                    ctx.check("C11", "semantic-sdd-builder-equal-functions-not-eq", e, || {
                        format!("SemanticSddBuilder: eq(h{x}, h{y}) is false although both denote {}", tt::show(model[x]))
                    })?;
                }
            }
            H_CACHED => {
                // request the cached hash now (it is stored on the nodes from here on)
                let x = resolve(op.a[0], np);
                let c1 = p_b1[x].cached_semantic_hash(bdd1.order(), &f_large.map).value();
                let c3 = p_sc[x].cached_semantic_hash(sdd_c.vtree_manager(), &f_large.map).value();
                let c4 = p_su[x].cached_semantic_hash(sdd_u.vtree_manager(), &f_large.map).value();
                let c5 = sem.cached_semantic_hash(p_se[x]).value();
                ctx.ev(200 + kind as u64, &[x as u64, c1 as u64, c3 as u64, c4 as u64, c5 as u64]);
                let want = f_large.defsum(model[x]);
                for (name, c, t) in [
                    ("BDD", c1, wb::walk_raw(p_b1[x], &mut BTreeMap::new())),
                    ("compressed SDD", c3, ws::walk(p_sc[x], &mut BTreeMap::new())),
                    ("uncompressed SDD", c4, ws::walk(p_su[x], &mut BTreeMap::new())),
                    ("hash-identified SDD", c5, ws::walk(p_se[x], &mut BTreeMap::new())),
                ] {
                    let w = if name == "hash-identified SDD" { lib_large.defsum(t) } else { f_large.defsum(t) };
                    ctx.check("C11", "cached-hash-equals-recomputed", c == w, || format!("{name} h{x}: cached_semantic_hash = {c}, recomputed from its function = {w} (model {want})"))?;
                }
                if ntd > 0 {
                    let y = resolve(op.a[1], ntd);
                    for (name, c, t) in [
                        ("top-down diagram (standard store)", t_std[y].cached_semantic_hash(td_std.order(), &f_large.map).value(), wb::walk_raw(t_std[y], &mut BTreeMap::new())),
                        ("top-down diagram (hash-identified store)", t_sem[y].cached_semantic_hash(td_sem.order(), &lib_large.map).value(), wb::walk_raw(t_sem[y], &mut BTreeMap::new())),
                    ] {
                        let w = if name.contains("hash-identified") { lib_large.defsum(t) } else { f_large.defsum(t) };
                        ctx.check("C11", "cached-hash-equals-recomputed", c == w, || format!("{name} t{y}: cached_semantic_hash = {c}, recomputed from its function = {w}"))?;
                    }
                }
            }
            H_STATS => {
                // statistics are queries like any other: nothing they compute may change a later answer
                let a = td_std.num_logically_redundant();
                let b = td_sem.num_logically_redundant();
                let _ = (td_std.stats(), td_sem.stats(), sem.stats(), sdd_c.stats(), sdd_u.stats(), bdd1.stats(), bdd2.stats());
                ctx.ev(200 + kind as u64, &[a as u64, b as u64]);
            }
            H_CLONE_EDIT => {
                let nodes = td_sem.verif_nodes();
                if nodes.is_empty() {
                    continue;
                }
                let nd = nodes[op.a[0].unsigned_abs() as usize % nodes.len()];
                if flag {
                    // make sure the original has its hash memoised before it is copied
                    let _ = BddPtr::Reg(nd).cached_semantic_hash(td_sem.order(), &lib_large.map);
                }
                // the copy with its children swapped decides the same variable the other way round
                let mut c = nd.clone();
                std::mem::swap(&mut c.low, &mut c.high);
                let orig = wb::walk_raw(BddPtr::Reg(nd), &mut BTreeMap::new());
                let vv = nd.var.value_usize();
                let want = (tt::lit(vv, true) & tt::restrict(orig, vv, false)) | (tt::lit(vv, false) & tt::restrict(orig, vv, true));
                let r = td_sem.get_or_insert(c);
                let got = wb::walk_raw(r, &mut BTreeMap::new());
                ctx.ev(200 + kind as u64, &[wb::addr(r) as u64, r.is_neg() as u64, tt::lo(got), tt::hi(got)]);
                ctx.check("C11", "semantic-topdown-builder-result-function", got == want, || {
                    format!("get_or_insert(copy of a stored node with its children swapped) returned a diagram denoting {}, the node handed in denotes {}", tt::show(got), tt::show(want))
                })?;
                f_large.check(ctx, &r, got, "top-down diagram (hash-identified store, via get_or_insert)")?;
                let ch = r.cached_semantic_hash(td_sem.order(), &lib_large.map).value();
                ctx.check("C11", "cached-hash-equals-recomputed", ch == lib_large.defsum(got), || format!("node returned by get_or_insert: cached_semantic_hash = {ch}, recomputed from its function = {}", lib_large.defsum(got)))?;
            }
            T_COMPILE | T_NEG | T_COND => {
                let x = if ntd > 0 { resolve(op.a[0], ntd) } else { 0 };
                let g = op.a[0].unsigned_abs() as usize % 3;
                let (r6, r7, m) = match kind {
                    T_COMPILE => (td_std.compile_cnf_topdown(&cnfs[g]), td_sem.compile_cnf_topdown(&cnfs[g]), cnf_tts[g]),
                    T_NEG => (t_std[x].neg(), t_sem[x].neg(), !t_model[x]),
                    _ => (td_std.condition(t_std[x], lbl, flag), td_sem.condition(t_sem[x], lbl, flag), tt::restrict(t_model[x], v, flag)),
                };
                t_std.push(r6);
                t_sem.push(r7);
                t_model.push(m);
                nres += 1;
                ctx.ev(200 + kind as u64, &[ntd as u64, wb::addr(r6) as u64, wb::addr(r7) as u64, tt::lo(m), tt::hi(m)]);
                ctx.note(|| format!("[{i}] t{ntd} = {}(t{x} / cnf#{g} {:?}, x{v}, {flag}) tt={} -> sem {}{:#x}", KN[kind as usize], groups[g], tt::show(m), if r7.is_neg() { "~" } else { "" }, wb::addr(r7)));
                let t6 = wb::walk_raw(r6, &mut BTreeMap::new());
                let t7 = wb::walk_raw(r7, &mut BTreeMap::new());
                f_tiny.check(ctx, &r6, t6, "top-down diagram (standard store)")?;
                f_large.check(ctx, &r6, t6, "top-down diagram (standard store)")?;
                f_small.check(ctx, &r7, t7, "top-down diagram (hash-identified store)")?;
                f_large.check(ctx, &r7, t7, "top-down diagram (hash-identified store)")?;
                ctx.check("C11", "semantic-topdown-builder-result-function", t7 == m, || {
                    format!("SemanticDecisionNNFBuilder `{}` returned a diagram denoting {}, the definition gives {}", KN[kind as usize], tt::show(t7), tt::show(m))
                })?;
            }
            _ => {}
        }
    }
    // ---- end of run: cached hashes of every handle equal recomputation, whenever they were first requested
    ctx.step = plan.ops.len();
    for x in 0..model.len() {
        let c1 = p_b1[x].cached_semantic_hash(bdd1.order(), &f_large.map).value();
        let c2 = p_b2[x].cached_semantic_hash(bdd2.order(), &f_large.map).value();
        let c3 = p_sc[x].cached_semantic_hash(sdd_c.vtree_manager(), &f_large.map).value();
        let c4 = p_su[x].cached_semantic_hash(sdd_u.vtree_manager(), &f_large.map).value();
        let c5 = sem.cached_semantic_hash(p_se[x]).value();
        let r1 = p_b1[x].semantic_hash(&f_large.map).value();
        let r2 = p_b2[x].semantic_hash(&f_large.map).value();
        let r3 = p_sc[x].semantic_hash(&f_large.map).value();
        let r4 = p_su[x].semantic_hash(&f_large.map).value();
        let r5 = p_se[x].semantic_hash(&lib_large.map).value();
        for (name, c, r) in [("BDD order 1", c1, r1), ("BDD order 2", c2, r2), ("compressed SDD", c3, r3), ("uncompressed SDD", c4, r4), ("hash-identified SDD", c5, r5)] {
            ctx.check("C11", "cached-hash-equals-recomputed", c == r, || format!("{name} h{x}: cached_semantic_hash = {c} but semantic_hash recomputes {r}"))?;
        }
    }
    for y in 0..t_model.len() {
        for (name, c, r) in [
            ("top-down diagram (standard store)", t_std[y].cached_semantic_hash(td_std.order(), &f_large.map).value(), t_std[y].semantic_hash(&f_large.map).value()),
            ("top-down diagram (hash-identified store)", t_sem[y].cached_semantic_hash(td_sem.order(), &lib_large.map).value(), t_sem[y].semantic_hash(&lib_large.map).value()),
        ] {
            ctx.check("C11", "cached-hash-equals-recomputed", c == r, || format!("{name} t{y}: cached_semantic_hash = {c} but semantic_hash recomputes {r}"))?;
        }
    }
    // hash-identified builders identify *nodes* by hash: two distinct stored nodes that denote the same
    // (or complementary) function mean that an equal function was judged different when it was inserted
    {
        let mut seen: BTreeMap<TT, usize> = BTreeMap::new();
        for nd in td_sem.verif_nodes() {
            let a = nd as *const _ as usize;
            let t = wb::walk_raw(BddPtr::Reg(nd), &mut BTreeMap::new());
            if let Some(prev) = seen.insert(t.min(!t), a) {
                ctx.check("C11", "semantic-topdown-builder-redundant-node", false, || {
                    format!("SemanticDecisionNNFBuilder stores two nodes ({prev:#x}, {a:#x}) for the function {} (or its complement)", tt::show(t))
                })?;
            }
        }
        ctx.evals += 1;
        let mut seen: BTreeMap<TT, (usize, u8)> = BTreeMap::new();
        for nd in sem.node_iter() {
            let t = ws::walk(nd, &mut BTreeMap::new());
            if let Some(prev) = seen.insert(t.min(!t), ws::pkey(nd)) {
                ctx.check("C11", "semantic-sdd-builder-redundant-node", false, || {
                    format!("SemanticSddBuilder stores two nodes ({:x?}, {:x?}) for the function {} (or its complement)", prev, ws::pkey(nd), tt::show(t))
                })?;
            }
        }
        ctx.evals += 1;
    }
    ctx.count("operand-too-big-skipped", usize_cap_hit);
    ctx.nontrivial = nres >= 3;
    ctx.states.extend(model.iter().chain(t_model.iter()).map(|t| mix(tt::lo(*t), tt::hi(*t))));
    Ok(())
}

impl World for SemHashWorld {
    fn name(&self) -> &'static str {
        "semhash"
    }
    fn properties(&self) -> &'static [&'static str] {
        &["C11", "C16"]
    }

    fn generate(&self, run_seed: u64, target: &str, thorough: bool) -> Plan {
        let mut cfg = Cfg::new();
        let mut c = Rng::stream(run_seed, "config");
        let mut o = Rng::stream(run_seed, "ops");
        let mut p = Rng::stream(run_seed, "placement");
        // rare large scenarios: 1 in 150 "literals" (tens of thousands of variables), 1 in 2500 "compile" (20-22 variable CNF)
        let scenario = if target != "C16" && c.below(150) == 0 { 1 } else if target != "C16" && c.below(2500) == 0 { 2 } else { 0 };
        // (diagnostics only: VERIF_FORCE_SCENARIO / VERIF_FORCE_N override the drawn values; never set by the checks)
        let scenario = std::env::var("VERIF_FORCE_SCENARIO").ok().and_then(|s| s.parse::<i64>().ok()).unwrap_or(scenario);
        cfg.insert("scenario".into(), scenario);
        let n = match scenario {
            1 => *c.pick(&[20_000u64, 60_000, 100_000, 100_000]),
            2 => 17 + c.below(4),
            _ => 1 + c.below(6),
        };
        let n = std::env::var("VERIF_FORCE_N").ok().and_then(|s| s.parse::<u64>().ok()).unwrap_or(n);
        cfg.insert("nvars".into(), n as i64);
        for k in ["ord1", "ord2", "ord3", "ord4"] {
            cfg.insert(k.into(), c.below(720) as i64);
        }
        for k in ["vt1_shape", "vt2_shape", "vt3_shape"] {
            cfg.insert(k.into(), c.below(6) as i64);
        }
        cfg.insert("vt_seed".into(), (c.next() >> 2) as i64);
        cfg.insert("sem_compress".into(), c.below(2) as i64);
        cfg.insert("table_cap".into(), *c.pick(&[0i64, 1, 2, 3, 4, 8, 16, 64, 64]));
        cfg.insert("special_map".into(), (c.below(4) == 0) as i64);
        cfg.insert("map_seed".into(), (c.next() >> 2) as i64);
        cfg.insert("place_off".into(), (p.below(4096) * 16) as i64);
        cfg.insert("place_pad_every".into(), p.below(5) as i64);
        cfg.insert("place_pad_bytes".into(), (p.below(8) * 16) as i64);
        let mut rates = [0u16; NUM_SITES];
        use rsdd::verif::Site::*;
        for site in [IteCacheForget, SddAppCacheForget, SemAppCacheForget, TableGrowNow, TopDownCacheForget, CondMemoForget] {
            if c.below(3) == 0 {
                rates[site as usize] = *c.pick(&[4u16, 32, 128]);
            }
        }
        if target == "C16" && rates[SemAppCacheForget as usize] == 0 {
            rates[SemAppCacheForget as usize] = *c.pick(&[8u16, 32, 128]);
        }
        let mut ops = Vec::new();
        if scenario == 2 {
            // random 3-CNF at about two clauses per variable
            for _ in 0..(2 * n + c.below(6)) {
                let mut a = [0i64; 4];
                for slot in a.iter_mut().take(3) {
                    let x = o.below(n) as i64 + 1;
                    *slot = if o.bool() { x } else { -x };
                }
                ops.push(Op { c: 0, k: K_CLAUSE, a });
            }
            return Plan { world: "semhash".into(), target: target.into(), seed: run_seed, cfg, ops, faults: Faults::Random { seed: mix(run_seed, 84), rates: [0; NUM_SITES] } };
        }
        if scenario == 1 {
            return Plan { world: "semhash".into(), target: target.into(), seed: run_seed, cfg, ops, faults: Faults::Random { seed: mix(run_seed, 84), rates: [0; NUM_SITES] } };
        }
        for _ in 0..(2 + c.below(9)) {
            ops.push(Op { c: o.below(3) as u8, k: K_CLAUSE, a: gen_clause(&mut o, n) });
        }
        let mut w = [0u32; NK];
        let base = [0u32, 8, 5, 10, 9, 6, 5, 3, 4, 2, 5, 5, 3, 2, 2];
        for k in 1..NK {
            w[k] = if c.below(5) == 0 { 0 } else { base[k] * (1 + c.below(3) as u32) };
        }
        w[B_VAR as usize] = w[B_VAR as usize].max(4);
        let len = 6 + o.below(if thorough { 90 } else { 45 });
        for _ in 0..len {
            let k = o.weighted(&w) as u8;
            ops.push(Op { c: 0, k, a: [gen_operand(&mut o), gen_operand(&mut o), o.below(8) as i64, o.below(2) as i64] });
        }
        Plan {
            world: "semhash".into(),
            target: target.into(),
            seed: run_seed,
            cfg,
            ops,
            faults: Faults::Random { seed: mix(run_seed, 84), rates },
        }
    }

    fn execute(&self, plan: &Plan, ctx: &mut Ctx) -> R {
        run(plan, ctx)
    }

    fn simplify_cfg(&self, plan: &Plan) -> Vec<Cfg> {
        let mut v = Vec::new();
        for (k, val) in [("place_off", 0), ("place_pad_every", 0), ("place_pad_bytes", 0), ("ord1", 0), ("ord2", 0), ("ord3", 0), ("ord4", 0), ("vt1_shape", 0), ("vt2_shape", 0), ("vt3_shape", 0), ("table_cap", 0)] {
            if plan.get_or(k, val) != val {
                let mut c = plan.cfg.clone();
                c.insert(k.into(), val);
                v.push(c);
            }
        }
        v
    }

    fn render_op(&self, op: &Op) -> String {
        if op.k == K_CLAUSE {
            format!("clause (cnf#{}) {:?}", op.c, clause_of(op))
        } else {
            format!("{} {:?}", KN.get(op.k as usize).unwrap_or(&"?"), op.a)
        }
    }
}

//! `sat` world (C09): the real `SATSolver` under arbitrary decide/pop
//! interleavings, including refused (UNSAT) decisions followed by more work on
//! the same solver (watch lists are mutated by `decide` and deliberately not
//! restored by `pop`).
//!
//! Oracles: all <= 64 models of the CNF (brute force), a shadow stack.

use crate::core::*;
use crate::rng::{mix, Rng};
use rsdd::repr::{Cnf, DecisionResult, Literal, SATSolver, VarLabel};
use std::collections::BTreeMap;

pub struct SatWorld;

pub const K_CLAUSE: u8 = 0;
pub const K_DECIDE: u8 = 1;
pub const K_POP: u8 = 2;
/// at the root state: decide every literal once (decide, read hash, pop) and compare the hashes of all these
/// single-decision states with their residual formulas
pub const K_SWEEP: u8 = 3;
/// up to four more literals for the clause defined by the closest preceding K_CLAUSE
pub const K_CLAUSE_EXT: u8 = 20;
pub const MAXV: usize = 10;

/// clause as (var, polarity) list, from an op's encoded literals
pub fn clause_of(op: &Op) -> Vec<(usize, bool)> {
    op.a.iter()
        .filter(|l| **l != 0)
        .map(|l| ((l.unsigned_abs() as usize - 1) % (1 << 20), *l > 0))
        .collect()
}

/// all clauses of a plan (K_CLAUSE, optionally extended by following K_CLAUSE_EXT operations), variables < nv_cap
pub fn clauses_of_plan(ops: &[Op], nv_cap: usize) -> Vec<Vec<(usize, bool)>> {
    let mut out: Vec<Vec<(usize, bool)>> = Vec::new();
    for op in ops {
        if op.k == K_CLAUSE {
            out.push(clause_of(op).into_iter().map(|(v, p)| (v % nv_cap, p)).collect());
        } else if op.k == K_CLAUSE_EXT {
            if let Some(last) = out.last_mut() {
                last.extend(clause_of(op).into_iter().map(|(v, p)| (v % nv_cap, p)));
            }
        }
    }
    out
}

/// clause operations for a random CNF: mostly short clauses, sometimes long ones
pub fn gen_cnf_ops(c: &mut Rng, o: &mut Rng, nv: u64, max_clauses: u64) -> Vec<Op> {
    let mut ops = Vec::new();
    for _ in 0..c.below(max_clauses + 1) {
        ops.push(Op { c: 0, k: K_CLAUSE, a: gen_clause(o, nv) });
        if o.below(8) == 0 {
            ops.push(Op { c: 0, k: K_CLAUSE_EXT, a: gen_clause(o, nv) });
        }
    }
    ops
}

pub fn gen_clause(o: &mut Rng, nv: u64) -> [i64; 4] {
    let mut a = [0i64; 4];
    // sizes: empty (rare), unit, binary, ternary, 4
    let sz = match o.below(40) {
        0 => 0,
        1..=7 => 1,
        8..=21 => 2,
        22..=33 => 3,
        _ => 4,
    };
    for slot in a.iter_mut().take(sz) {
        let v = o.below(nv) as i64 + 1;
        *slot = if o.bool() { v } else { -v };
    }
    // sometimes force a duplicate or a complementary pair
    if sz >= 2 && o.below(10) == 0 {
        a[1] = if o.bool() { a[0] } else { -a[0] };
    }
    a
}

/// complete satisfiability oracle for the large instances (plain DPLL with unit propagation,
/// written for the harness; shares nothing with rsdd)
pub fn dpll_sat(clauses: &[Vec<(usize, bool)>], assumptions: &[(usize, bool)], nv: usize) -> bool {
    fn go(clauses: &[Vec<(usize, bool)>], asg: &mut Vec<Option<bool>>) -> bool {
        // unit propagation to fixpoint (units are assigned as soon as they are seen, so that a long
        // implication ladder listed in order is swept in one pass)
        let mut trail: Vec<usize> = Vec::new();
        loop {
            let mut changed = false;
            for c in clauses {
                let mut sat = false;
                let mut free: Option<(usize, bool)> = None;
                let mut nfree = 0;
                for (v, p) in c {
                    match asg[*v] {
                        Some(b) if b == *p => {
                            sat = true;
                            break;
                        }
                        Some(_) => {}
                        None => {
                            if free != Some((*v, *p)) {
                                if free.map(|f| f.0 == *v).unwrap_or(false) {
                                    // both polarities of one variable: tautological remainder
                                    sat = true;
                                    break;
                                }
                                nfree += 1;
                                free = Some((*v, *p));
                            }
                        }
                    }
                }
                if sat {
                    continue;
                }
                if nfree == 0 {
                    for v in trail {
                        asg[v] = None;
                    }
                    return false;
                }
                if nfree == 1 {
                    let (v, p) = free.unwrap();
                    asg[v] = Some(p);
                    trail.push(v);
                    changed = true;
                }
            }
            if !changed {
                break;
            }
        }
        // branch
        let mut pick: Option<usize> = None;
        for c in clauses {
            if c.iter().any(|(v, p)| asg[*v] == Some(*p)) {
                continue;
            }
            if let Some((v, _)) = c.iter().find(|(v, _)| asg[*v].is_none()) {
                pick = Some(*v);
                break;
            }
        }
        let r = match pick {
            None => true,
            Some(v) => {
                let mut ok = false;
                for b in [true, false] {
                    asg[v] = Some(b);
                    if go(clauses, asg) {
                        ok = true;
                    }
                    asg[v] = None;
                    if ok {
                        break;
                    }
                }
                ok
            }
        };
        for v in trail {
            asg[v] = None;
        }
        r
    }
    let mut asg: Vec<Option<bool>> = vec![None; nv.max(1)];
    for (v, p) in assumptions {
        match asg[*v] {
            Some(b) if b != *p => return false,
            _ => asg[*v] = Some(*p),
        }
    }
    go(clauses, &mut asg)
}

struct Shadow {
    model: Vec<Option<bool>>,
    hash: u128,
    is_sat: bool,
    decisions: Vec<(usize, bool)>,
}

pub fn is_taut(c: &[(usize, bool)]) -> bool {
    c.iter().any(|(v, p)| c.contains(&(*v, !*p)))
}

/// "Counter period" scenario: a formula made of two blocks that share no variable. A few decisions touch block B,
/// then a *quiet phase* of exactly M decide/pop pairs works on block A only, then block B is touched again. M is
/// taken next to the periods of narrow counters (2^8, 2^16), minus a small offset so that some pair of touches of
/// B is exactly one period apart: whatever the solver stamps, counts or caches per call and never looks at during
/// the quiet phase comes back into play precisely when a u8 / u16 counter has gone round.
fn gen_period(run_seed: u64, target: &str, c: &mut Rng, o: &mut Rng) -> Plan {
    let mut cfg = Cfg::new();
    let (na, nb) = (2 + c.below(3), 3 + c.below(3));
    let nv = na + nb;
    cfg.insert("nv".into(), nv as i64);
    cfg.insert("big".into(), 0);
    cfg.insert("chain".into(), 0);
    cfg.insert("arena".into(), 1);
    cfg.insert("period".into(), 1);
    let mut ops = Vec::new();
    let block = |o: &mut Rng, lo: u64, n: u64, ops: &mut Vec<Op>| {
        for _ in 0..(2 + o.below(4)) {
            let mut a = [0i64; 4];
            for slot in a.iter_mut().take(2 + o.below(2) as usize) {
                let x = (lo + o.below(n)) as i64 + 1;
                *slot = if o.bool() { x } else { -x };
            }
            ops.push(Op { c: 0, k: K_CLAUSE, a });
        }
    };
    block(o, 0, na, &mut ops);
    block(o, na, nb, &mut ops);
    // a touch of block B: two or three nested decisions on its variables, then the matching pops (clauses are
    // visited while satisfied by an earlier decision of the touch, while unit, while falsified)
    let touch_b = |o: &mut Rng, ops: &mut Vec<Op>, k: u64| {
        for _ in 0..k {
            let depth = 1 + o.below(3);
            for _ in 0..depth {
                ops.push(Op { c: 0, k: K_DECIDE, a: [(na + o.below(nb)) as i64, o.below(2) as i64, 0, 0] });
            }
            for _ in 0..depth {
                ops.push(Op { c: 0, k: K_POP, a: [0; 4] });
            }
        }
    };
    let (k1, k2) = (2 + o.below(5), 3 + o.below(6));
    touch_b(o, &mut ops, k1);
    let d1 = ops.iter().filter(|x| x.k == K_DECIDE).count() as u64;
    let mut tail = Vec::new();
    touch_b(o, &mut tail, k2);
    let d2 = tail.iter().filter(|x| x.k == K_DECIDE).count() as u64;
    // the quiet phase: M decide calls on block A, such that some decide of the first phase and some decide of the
    // second are exactly one period (2^8 - 1, 2^8, 2^16 - 1 or 2^16 calls) apart
    let period: u64 = *c.pick(&[255u64, 256, 65_535, 65_535, 65_536, 65_536]);
    let m = period - 1 - c.below(d1 + d2 - 1);
    cfg.insert("quiet_phase".into(), m as i64);
    for _ in 0..m {
        ops.push(Op { c: 0, k: K_DECIDE, a: [o.below(na) as i64, o.below(2) as i64, 0, 0] });
        ops.push(Op { c: 0, k: K_POP, a: [0; 4] });
    }
    ops.extend(tail);
    Plan { world: "sat".into(), target: target.into(), seed: run_seed, cfg, ops, faults: Faults::Random { seed: mix(run_seed, 80), rates: [0; NUM_SITES] } }
}

impl World for SatWorld {
    fn name(&self) -> &'static str {
        "sat"
    }
    fn properties(&self) -> &'static [&'static str] {
        &["C09"]
    }

    fn generate(&self, run_seed: u64, target: &str, thorough: bool) -> Plan {
        let mut cfg = Cfg::new();
        let mut c = Rng::stream(run_seed, "config");
        let mut o = Rng::stream(run_seed, "ops");
        let mut s = Rng::stream(run_seed, "schedule");
        if c.below(1000) == 0 {
            return gen_period(run_seed, target, &mut c, &mut o);
        }
        // mostly up to 6 variables / 8 clauses; one run in four goes up to 10 variables / 14 clauses
        let wide = c.below(4) == 0;
        // one run in six is a large instance (11-60 variables, up to 300 clauses) judged by a DPLL oracle
        let big = c.below(6) == 0;
        // one run in sixty: a long implication ladder x0 -> x1 -> ... (up to 6000 rungs) with a few side clauses
        let chain = c.below(60) == 0;
        let long_chain = c.below(3) == 0;
        // one run in ten: few clauses over a handful of variables whose labels are far apart (differing by
        // multiples of 32 / 64 / 128): small enough for every flag and hash to matter, wide enough for word boundaries
        let sparse = !chain && c.below(10) == 0;
        // one run in fourteen: a handful of clauses, one of them long (9-14 literals of mixed polarity), with few
        // enough literal occurrences for the hash clause of the property to apply
        // one run in 5000: a huge formula (20 000 - 40 000 variables, 85 000 - 140 000 literal occurrences) whose
        // single-decision states are all visited by one sweep
        let huge = !chain && !sparse && c.below(5000) == 0;
        let longc = !chain && !sparse && !huge && c.below(14) == 0;
        // one run in fourteen: 18-45 clauses that share 3-5 hub literals (watch lists with tens of entries) and
        // many decide/pop cycles on the hubs, so that watches migrate between long lists in every order
        let hub = !chain && !sparse && !longc && !huge && c.below(14) == 0;
        // (one long-clause run in four: 33-90 literals -- beyond every 32-bit-wide threshold a clause can meet)
        let very_long = longc && c.below(4) == 0;
        let nv = if huge { 20_000 + c.below(20_000) } else if very_long { 34 + c.below(60) } else if longc { 9 + c.below(6) } else if hub { 20 + c.below(50) } else if sparse { 65 + c.below(140) } else if chain { 50 + c.below(if long_chain { 6000 } else { 600 }) } else if big { 11 + c.below(130) } else if wide { 5 + c.below(6) } else { 1 + c.below(6) };
        cfg.insert("nv".into(), nv as i64);
        let big = big || chain || sparse || longc || hub || huge;
        cfg.insert("huge".into(), huge as i64);
        let mut hub_vars: Vec<u64> = Vec::new();
        let sparse_vars: Vec<u64> = if sparse {
            let k = c.below(nv.min(64));
            let mut u = vec![k, (k + 64) % nv, (k + 128) % nv, (k + 32) % nv, c.below(nv), c.below(nv)];
            u.sort_unstable();
            u.dedup();
            u
        } else {
            Vec::new()
        };
        cfg.insert("big".into(), big as i64);
        cfg.insert("chain".into(), chain as i64);
        cfg.insert("arena".into(), 1);
        // literals of one clause as K_CLAUSE + K_CLAUSE_EXT operations (slot value +-(var+1), 0 = unused)
        let emit = |v: &mut Vec<Op>, lits: &[i64]| {
            for (j, ch) in lits.chunks(4).enumerate() {
                let mut a = [0i64; 4];
                a[..ch.len()].copy_from_slice(ch);
                v.push(Op { c: 0, k: if j == 0 { K_CLAUSE } else { K_CLAUSE_EXT }, a });
            }
        };
        // one huge formula in five mentions every variable exactly once (pairwise disjoint clauses): deciding a
        // literal false then removes exactly one literal occurrence, so the sweep compares the hash weights of all
        // occurrences with each other
        let disjoint = huge && c.below(5) == 0;
        let nv = if disjoint { 85_000 + c.below(15_000) } else { nv };
        if disjoint {
            cfg.insert("nv".into(), nv as i64);
            cfg.insert("disjoint".into(), 1);
        }
        let mut ops = if disjoint {
            let mut v = Vec::new();
            let mut vars: Vec<u64> = (0..nv).collect();
            o.shuffle(&mut vars);
            let mut i = 0usize;
            while i + 3 <= vars.len() {
                let sz = if o.below(10) == 0 { 2 } else { 3 };
                let mut a = [0i64; 4];
                for (slot, x) in a.iter_mut().zip(vars[i..i + sz].iter()) {
                    *slot = if o.bool() { *x as i64 + 1 } else { -(*x as i64 + 1) };
                }
                i += sz;
                v.push(Op { c: 0, k: K_CLAUSE, a });
            }
            v
        } else if huge {
            let mut v = Vec::new();
            for _ in 0..(29_000 + c.below(18_000)) {
                let mut a = [0i64; 4];
                let sz = if o.below(8) == 0 { 2 } else { 3 };
                for slot in a.iter_mut().take(sz) {
                    let x = o.below(nv) as i64 + 1;
                    *slot = if o.bool() { x } else { -x };
                }
                v.push(Op { c: 0, k: K_CLAUSE, a });
            }
            v
        } else if longc {
            let mut v = Vec::new();
            let mut vars: Vec<u64> = (0..nv).collect();
            o.shuffle(&mut vars);
            let k = if very_long { 33 + o.below(nv - 32) as usize } else { 9 + o.below(nv - 8) as usize };
            let lits: Vec<i64> = vars[..k].iter().map(|x| if o.bool() { *x as i64 + 1 } else { -(*x as i64 + 1) }).collect();
            let before = o.below(3);
            let short = |o: &mut Rng, v: &mut Vec<Op>| {
                let mut a = [0i64; 4];
                for slot in a.iter_mut().take(2 + o.below(2) as usize) {
                    let x = o.below(nv) as i64 + 1;
                    *slot = if o.bool() { x } else { -x };
                }
                v.push(Op { c: 0, k: K_CLAUSE, a });
            };
            for _ in 0..before {
                short(&mut o, &mut v);
            }
            emit(&mut v, &lits);
            for _ in 0..(1 + o.below(3)).saturating_sub(before) {
                short(&mut o, &mut v);
            }
            v
        } else if hub {
            let mut v = Vec::new();
            let mut vars: Vec<u64> = (0..nv).collect();
            o.shuffle(&mut vars);
            let nh = 3 + o.below(3) as usize;
            hub_vars = vars[..nh].to_vec();
            let hub_pol: Vec<bool> = (0..nh).map(|_| o.bool()).collect();
            for _ in 0..(18 + o.below(28)) {
                let mut idx: Vec<usize> = (0..nh).collect();
                o.shuffle(&mut idx);
                let take = 2 + o.below((nh.min(4) - 1) as u64) as usize;
                let mut lits: Vec<i64> = idx[..take]
                    .iter()
                    .map(|h| {
                        let x = hub_vars[*h] as i64 + 1;
                        if hub_pol[*h] != (o.below(10) == 0) { x } else { -x }
                    })
                    .collect();
                for _ in 0..(1 + o.below(2)) {
                    let x = vars[nh + o.below(nv - nh as u64) as usize] as i64 + 1;
                    lits.push(if o.bool() { x } else { -x });
                }
                o.shuffle(&mut lits);
                emit(&mut v, &lits);
            }
            v
        } else if sparse {
            let mut v = Vec::new();
            for _ in 0..(1 + c.below(8)) {
                let mut a = [0i64; 4];
                let sz = 1 + o.below(4) as usize;
                for slot in a.iter_mut().take(sz) {
                    let x = *o.pick(&sparse_vars) as i64 + 1;
                    *slot = if o.bool() { x } else { -x };
                }
                v.push(Op { c: 0, k: K_CLAUSE, a });
            }
            v
        } else if chain {
            let mut v = Vec::new();
            let start = o.below(5) as i64;
            for i in start..(nv as i64 - 1) {
                // x_i -> x_{i+1}, in one of the two literal orders
                let a = if o.bool() { [-(i + 1), i + 2, 0, 0] } else { [i + 2, -(i + 1), 0, 0] };
                v.push(Op { c: 0, k: K_CLAUSE, a });
            }
            for _ in 0..o.below(12) {
                v.push(Op { c: 0, k: K_CLAUSE, a: gen_clause(&mut o, nv) });
            }
            v
        } else if big {
            let many = c.below(3) == 0;
            let ncl = 10 + c.below(if many { 290 } else { 70 });
            let mut v = Vec::new();
            for _ in 0..ncl {
                // mostly ternary clauses over many variables, some units to start propagation
                let mut a = [0i64; 4];
                let sz = match o.below(20) { 0 => 1, 1..=4 => 2, 5..=16 => 3, _ => 4 };
                for slot in a.iter_mut().take(sz) {
                    let x = o.below(nv) as i64 + 1;
                    *slot = if o.bool() { x } else { -x };
                }
                v.push(Op { c: 0, k: K_CLAUSE, a });
                if o.below(12) == 0 {
                    v.push(Op { c: 0, k: K_CLAUSE_EXT, a: gen_clause(&mut o, nv) });
                }
            }
            v
        } else {
            gen_cnf_ops(&mut c, &mut o, nv, if wide { 14 } else { 8 })
        };
        let ncallers = 1 + c.below(3);
        // one small run in 1500 is a marathon: a long-lived solver that sees 150 000 - 250 000 decide/pop calls
        // (about as many decisions as pops, so the stack stays shallow and most decisions are top-level ones)
        let marathon = !big && c.below(1500) == 0;
        let pop_w = if marathon { 50 } else { 15 + c.below(40) };
        if huge {
            ops.push(Op { c: 0, k: K_SWEEP, a: [0; 4] });
        }
        let len = if huge { 1 + o.below(8) } else if marathon { 150_000 + o.below(100_000) } else { 1 + o.below(if thorough { 120 } else { 50 }) + if hub { 60 } else { 0 } };
        for _ in 0..len {
            let caller = s.below(ncallers) as u8;
            if o.below(100) < pop_w {
                ops.push(Op { c: caller, k: K_POP, a: [0; 4] });
            } else {
                // in a ladder, decisions near the bottom start the longest propagation
                let dv = if sparse && o.below(6) != 0 {
                    *o.pick(&sparse_vars)
                } else if hub && o.below(5) < 3 {
                    *o.pick(&hub_vars)
                } else if chain && o.below(2) == 0 {
                    o.below(8)
                } else {
                    o.below(if huge { nv } else if big { 8192 } else { 12 })
                };
                ops.push(Op { c: caller, k: K_DECIDE, a: [dv as i64, o.below(2) as i64, 0, 0] });
            }
        }
        Plan {
            world: "sat".into(),
            target: target.into(),
            seed: run_seed,
            cfg,
            ops,
            faults: Faults::Random { seed: mix(run_seed, 80), rates: [0; NUM_SITES] },
        }
    }

    fn execute(&self, plan: &Plan, ctx: &mut Ctx) -> R {
        ctx.cur_prop = "C09";
        let big = plan.get_or("big", 0) != 0;
        let huge = plan.get_or("huge", 0) != 0;
        let clauses_in: Vec<Vec<(usize, bool)>> = clauses_of_plan(&plan.ops, if huge { 1 << 17 } else if big { 8192 } else { MAXV });
        let lits: Vec<Vec<Literal>> = clauses_in
            .iter()
            .map(|c| c.iter().map(|(v, p)| Literal::new(VarLabel::new(*v as u64), *p)).collect())
            .collect();
        let cnf = Cnf::new(&lits);
        let nv = cnf.num_vars();
        // the clause list as the library normalised it, read back through the public accessor
        let clauses: Vec<Vec<(usize, bool)>> = cnf
            .clauses()
            .iter()
            .map(|c| c.iter().map(|l| (l.label().value_usize(), l.polarity())).collect())
            .collect();
        // all models of the *input* clauses (independent of the library's normalisation)
        // (large instances: no enumeration; a DPLL oracle answers the satisfiability questions instead)
        let small = nv <= MAXV;
        let models: Vec<u32> = if small {
            (0..(1u32 << nv)).filter(|m| clauses_in.iter().all(|c| c.iter().any(|(v, p)| ((m >> v) & 1 == 1) == *p))).collect()
        } else {
            Vec::new()
        };
        ctx.ev(40, &[nv as u64, clauses.len() as u64, models.len() as u64]);
        ctx.note(|| format!("cnf over {nv} vars: {:?}; {} models", clauses_in, models.len()));

        // residual-formula bookkeeping for the hash clause: normalised, non-tautological clauses
        let norm: Vec<Vec<(usize, bool)>> = clauses
            .iter()
            .map(|c| {
                let mut c = c.clone();
                c.sort();
                c.dedup();
                c
            })
            .filter(|c| !is_taut(c))
            .collect();
        let mut product_fits = true;
        {
            // the library numbers literal occurrences with consecutive primes
            let mut prod: u128 = 1;
            let primes = [2u128, 3, 5, 7, 11, 13, 17, 19, 23, 29, 31, 37, 41, 43, 47, 53, 59, 61, 67, 71, 73, 79, 83, 89, 97, 101, 103, 107, 109, 113, 127, 131, 137, 139, 149, 151, 157];
            let n_occ: usize = norm.iter().map(|c| c.len()).sum();
            if n_occ > primes.len() {
                product_fits = false;
            } else {
                for p in primes.iter().take(n_occ) {
                    match prod.checked_mul(*p) {
                        Some(x) => prod = x,
                        None => {
                            product_fits = false;
                            break;
                        }
                    }
                }
            }
        }

        let solver = SATSolver::new(cnf.clone());
        let mut solver = match solver {
            None => {
                let no_model = if small { models.is_empty() } else { !dpll_sat(&clauses_in, &[], nv) };
                ctx.check("C09", "sat-unsat-at-construction-only-if-no-model", no_model, || {
                    format!("SATSolver::new reported UNSAT but the CNF over {nv} variables with {} clauses is satisfiable", clauses_in.len())
                })?;
                ctx.nontrivial = false;
                return Ok(());
            }
            Some(s) => s,
        };

        let read_model = |s: &SATSolver| -> Vec<Option<bool>> {
            (0..nv).map(|v| s.verif_model().get(VarLabel::new(v as u64))).collect()
        };
        let residual = |m: &Vec<Option<bool>>| -> Vec<Vec<(usize, bool)>> {
            let mut r: Vec<Vec<(usize, bool)>> = norm
                .iter()
                .filter(|c| !c.iter().any(|(v, p)| m[*v] == Some(*p)))
                .map(|c| c.iter().filter(|(v, _)| m[*v].is_none()).copied().collect())
                .collect();
            r.sort();
            r
        };
        let n_lits_norm: usize = norm.iter().map(|c| c.len()).sum();
        let mut seen_hash: BTreeMap<u128, (u128, Vec<Vec<(usize, bool)>>)> = BTreeMap::new();

        // all invariants of a reachable state
        let mut check_state = |ctx: &mut Ctx, s: &SATSolver, decisions: &[(usize, bool)], what: &str, entailed_before: &std::collections::BTreeSet<(usize, bool)>| -> R {
            let m = read_model(s);
            let mut refutations = 0u32;
            // 1. soundness: every assigned value is entailed by CNF + decisions
            let consistent: Vec<u32> = models
                .iter()
                .copied()
                .filter(|mm| decisions.iter().all(|(v, p)| ((mm >> v) & 1 == 1) == *p))
                .collect();
            for v in 0..nv {
                if let Some(b) = m[v] {
                    if small {
                        let bad = consistent.iter().find(|mm| ((*mm >> v) & 1 == 1) != b);
                        ctx.check("C09", "sat-assigned-value-entailed", bad.is_none(), || {
                            format!("{what}: x{v} is assigned {b} but model {:#b} of the CNF extends the decisions {:?} with x{v}={}", bad.unwrap(), decisions, !b)
                        })?;
                    } else if !entailed_before.contains(&(v, b)) && {
                        // ladders assign thousands of literals in one step: refute a sample of them
                        refutations += 1;
                        if huge { refutations <= 2 } else { refutations <= 24 || v % 97 == 0 }
                    } {
                        // entailment by refutation: CNF + decisions + (x_v = !b) must be unsatisfiable
                        let mut asm: Vec<(usize, bool)> = decisions.to_vec();
                        asm.push((v, !b));
                        let refuted = !dpll_sat(&clauses_in, &asm, nv);
                        ctx.check("C09", "sat-assigned-value-entailed", refuted, || {
                            format!("{what}: x{v} is assigned {b} but the CNF together with the decisions {:?} and x{v}={} is satisfiable", decisions, !b)
                        })?;
                    }
                }
                ctx.check("C09", "sat-is-set-matches-model", s.is_set(VarLabel::new(v as u64)) == m[v].is_some(), || {
                    format!("{what}: is_set(x{v}) disagrees with the model")
                })?;
            }
            // 2./3. fixpoint: no clause falsified, none unit
            for (ci, c) in clauses.iter().enumerate() {
                if c.is_empty() {
                    continue;
                }
                let sat = c.iter().any(|(v, p)| m[*v] == Some(*p));
                if sat || is_taut(c) {
                    continue;
                }
                let mut unassigned: Vec<(usize, bool)> = c.iter().filter(|(v, _)| m[*v].is_none()).copied().collect();
                unassigned.sort();
                unassigned.dedup();
                ctx.check("C09", "sat-clause-left-falsified", !unassigned.is_empty(), || {
                    format!("{what}: clause #{ci} {:?} has every literal false under {:?} and UNSAT was not reported", c, m)
                })?;
                ctx.check("C09", "sat-unit-clause-left-unpropagated", unassigned.len() != 1, || {
                    format!("{what}: clause #{ci} {:?} has exactly one unassigned literal {:?} (all others false) under {:?}: propagation stopped before the fixpoint", c, unassigned[0], m)
                })?;
            }
            // 4. satisfied flag
            let all_sat = clauses.iter().all(|c| is_taut(c) || c.iter().any(|(v, p)| m[*v] == Some(*p)));
            ctx.check("C09", "sat-flag-iff-all-clauses-satisfied", s.is_sat() == all_sat, || {
                format!("{what}: is_sat() = {} but 'every non-tautological clause has a true literal' is {} under {:?}", s.is_sat(), all_sat, m)
            })?;
            // 5. equal hashes only for identical residual formulas. When the product of all literal primes
            // fits in 128 bits this is exact; beyond that the library's wrapping product could collide in
            // principle (which would be a violation of the property as stated) but a coincidence modulo 2^128
            // is treated as impossible, exactly like a collision of two 64-bit semantic hashes in C11.
            {
                let r = residual(&m);
                let digest = {
                    let (mut a, mut b) = (0x9e3779b97f4a7c15u64, 0xc2b2ae3d27d4eb4fu64);
                    for c in r.iter() {
                        a = mix(a, 0xC1A);
                        b = mix(b, 0xC1B);
                        for (v, p) in c.iter() {
                            a = mix(a, (*v as u64) << 1 | *p as u64);
                            b = mix(b ^ 0x55, (*v as u64) << 1 | *p as u64);
                        }
                    }
                    (a as u128) << 64 | b as u128
                };
                let h = s.cur_hash();
                match seen_hash.get(&h) {
                    Some((prev_digest, prev)) => {
                        ctx.check("C09", "sat-equal-hash-different-residual", *prev_digest == digest, || {
                            if n_lits_norm <= 400 {
                                format!("{what}: hash {h} was seen for residual {:?} and now for residual {:?}", prev, r)
                            } else {
                                format!("{what}: hash {h} was seen for two different residual formulas ({} and {} clauses left; digests {prev_digest:#x} / {digest:#x}); decisions now {:?}", prev.len(), r.len(), decisions)
                            }
                        })?;
                    }
                    None => {
                        // the residual itself is only kept for small formulas (for the report)
                        seen_hash.insert(h, (digest, if n_lits_norm <= 400 { r } else { vec![Vec::new(); r.len()] }));
                    }
                }
            }
            Ok(())
        };

        let mut stack: Vec<Shadow> = Vec::new();
        let lits_of = |m: &Vec<Option<bool>>| -> std::collections::BTreeSet<(usize, bool)> { m.iter().enumerate().filter_map(|(v, x)| x.map(|b| (v, b))).collect() };
        check_state(ctx, &solver, &[], "after construction", &Default::default())?;
        stack.push(Shadow {
            model: read_model(&solver),
            hash: solver.cur_hash(),
            is_sat: solver.is_sat(),
            decisions: Vec::new(),
        });
        let base_depth = solver.verif_depth();
        let mut n_unsat = 0u64;
        let mut n_push = 0u64;
        let mut n_pop = 0u64;

        for (i, op) in plan.ops.iter().enumerate() {
            ctx.step = i;
            match op.k {
                K_DECIDE => {
                    ctx.ops += 1;
                    if nv == 0 {
                        continue;
                    }
                    let v = (op.a[0].unsigned_abs() as usize) % nv;
                    let p = op.a[1] & 1 == 1;
                    let top = stack.last().unwrap();
                    let mut decisions = top.decisions.clone();
                    decisions.push((v, p));
                    let res = solver.decide(Literal::new(VarLabel::new(v as u64), p));
                    let code = match res {
                        DecisionResult::SAT => 0u64,
                        DecisionResult::UNSAT => 1,
                        DecisionResult::Unknown => 2,
                    };
                    ctx.ev(41, &[v as u64, p as u64, code, solver.cur_hash() as u64, (solver.cur_hash() >> 64) as u64]);
                    ctx.note(|| format!("[{i}] c{} decide(x{v}={p}) -> {} model={:?}", op.c, ["SAT", "UNSAT", "Unknown"][code as usize], read_model(&solver)));
                    match res {
                        DecisionResult::UNSAT => {
                            n_unsat += 1;
                            if small {
                                let ext = models.iter().find(|mm| decisions.iter().all(|(v, p)| ((*mm >> v) & 1 == 1) == *p));
                                ctx.check("C09", "sat-unsat-only-if-no-model-extends", ext.is_none(), || {
                                    format!("decide(x{v}={p}) reported UNSAT but model {:#b} of the CNF extends the decisions {:?}", ext.unwrap(), decisions)
                                })?;
                            } else {
                                let sat = dpll_sat(&clauses_in, &decisions, nv);
                                ctx.check("C09", "sat-unsat-only-if-no-model-extends", !sat, || {
                                    format!("decide(x{v}={p}) reported UNSAT but the CNF is satisfiable together with the decisions {:?}", decisions)
                                })?;
                            }
                            // a refused decision pushes nothing: the state is the one before
                            let top = stack.last().unwrap();
                            let same = read_model(&solver) == top.model && solver.cur_hash() == top.hash && solver.is_sat() == top.is_sat && solver.verif_depth() == base_depth + stack.len() - 1;
                            ctx.check("C09", "sat-refused-decision-changes-state", same, || {
                                format!("after the refused decide(x{v}={p}) the solver state differs from the state before it")
                            })?;
                        }
                        _ => {
                            n_push += 1;
                            let verified = lits_of(&stack.last().unwrap().model);
                            check_state(ctx, &solver, &decisions, "after decide", &verified)?;
                            let is_sat_now = solver.is_sat();
                            ctx.check("C09", "sat-decide-result-matches-flag", matches!(res, DecisionResult::SAT) == is_sat_now, || {
                                format!("decide returned {} but is_sat() = {is_sat_now}", ["SAT", "UNSAT", "Unknown"][code as usize])
                            })?;
                            // difference_iter = newly assigned literals
                            let newm = read_model(&solver);
                            let prev = &stack.last().unwrap().model;
                            let mut want: Vec<(usize, bool)> = (0..nv).filter(|v| prev[*v].is_none() && newm[*v].is_some()).map(|v| (v, newm[v].unwrap())).collect();
                            want.sort();
                            let mut got: Vec<(usize, bool)> = solver.difference_iter().map(|l| (l.label().value_usize(), l.polarity())).collect();
                            got.sort();
                            ctx.check("C09", "sat-difference-iter", got == want, || {
                                format!("difference_iter() yields {:?}, the newly assigned literals are {:?}", got, want)
                            })?;
                            // an accepted decision is part of the new state
                            ctx.check("C09", "sat-accepted-decision-not-recorded", newm[v] == Some(p), || {
                                format!("decide(x{v}={p}) was accepted but the solver's model has x{v} = {:?}", newm[v])
                            })?;
                            // earlier assignments are never changed by a decision
                            let kept = (0..nv).all(|v| prev[v].is_none() || prev[v] == newm[v]);
                            ctx.check("C09", "sat-decide-keeps-earlier-assignments", kept, || {
                                format!("decide changed an earlier assignment: {:?} -> {:?}", prev, newm)
                            })?;
                            stack.push(Shadow { model: newm, hash: solver.cur_hash(), is_sat: is_sat_now, decisions });
                        }
                    }
                }
                K_SWEEP => {
                    ctx.ops += 1;
                    if stack.len() != 1 || nv == 0 {
                        continue;
                    }
                    // occurrence lists over the normalised clauses
                    let mut occ: Vec<[Vec<u32>; 2]> = (0..nv).map(|_| [Vec::new(), Vec::new()]).collect();
                    for (ci, c) in norm.iter().enumerate() {
                        for (v, p) in c.iter() {
                            occ[*v][*p as usize].push(ci as u32);
                        }
                    }
                    let root = read_model(&solver);
                    let root_sat: Vec<bool> = norm.iter().map(|c| c.iter().any(|(v, p)| root[*v] == Some(*p))).collect();
                    // residual key of a state that extends the root by `newly`: which further clauses are satisfied,
                    // which literal occurrences of unsatisfied clauses are falsified
                    let key_of = |newly: &[(usize, bool)]| -> u128 {
                        let mut sat: Vec<u32> = newly.iter().flat_map(|(v, b)| occ[*v][*b as usize].iter().copied()).filter(|ci| !root_sat[*ci as usize]).collect();
                        sat.sort_unstable();
                        sat.dedup();
                        let mut fals: Vec<(u32, usize)> =
                            newly.iter().flat_map(|(v, b)| occ[*v][!*b as usize].iter().map(move |ci| (*ci, *v))).filter(|(ci, _)| !root_sat[*ci as usize] && sat.binary_search(ci).is_err()).collect();
                        fals.sort_unstable();
                        fals.dedup();
                        let (mut a, mut b2) = (0x5EE9u64, 0xFA15u64);
                        for ci in sat.iter() {
                            a = mix(a, *ci as u64);
                            b2 = mix(b2 ^ 1, *ci as u64);
                        }
                        for (ci, v) in fals.iter() {
                            a = mix(a ^ 7, (*ci as u64) << 20 ^ *v as u64);
                            b2 = mix(b2 ^ 9, (*ci as u64) << 20 ^ *v as u64);
                        }
                        (a as u128) << 64 | b2 as u128
                    };
                    let mut seen: BTreeMap<u128, (usize, bool, u128)> = BTreeMap::new();
                    seen.insert(solver.cur_hash(), (usize::MAX, false, key_of(&[])));
                    let mut visited = 0u64;
                    // (the sweep's own allocations -- one saved solver state per decision -- go to the system allocator
                    // and are freed again: hundreds of thousands of them would not fit a bump arena)
                    let mut sweep = |ctx: &mut Ctx, solver: &mut SATSolver| -> R {
                    for v in 0..nv {
                        if root[v].is_some() {
                            continue;
                        }
                        // both polarities for every eighth variable, one (fixed by the variable) for the others
                        let one = mix(0x5EE9, v as u64) & 1 == 1;
                        for b in [false, true] {
                            if v % 8 != 0 && b != one {
                                continue;
                            }
                            if matches!(solver.decide(Literal::new(VarLabel::new(v as u64), b)), DecisionResult::UNSAT) {
                                continue;
                            }
                            visited += 1;
                            let newly: Vec<(usize, bool)> = solver.difference_iter().map(|l| (l.label().value_usize(), l.polarity())).collect();
                            let (h, key) = (solver.cur_hash(), key_of(&newly));
                            solver.pop();
                            if let Some((v0, b0, key0)) = seen.get(&h).copied() {
                                if key0 != key {
                                    // confirm on the exact residual formulas before reporting
                                    let exact = |s: &mut SATSolver, d: Option<(usize, bool)>| {
                                        if let Some((dv, db)) = d {
                                            let _ = s.decide(Literal::new(VarLabel::new(dv as u64), db));
                                        }
                                        let r = residual(&read_model(s));
                                        if d.is_some() {
                                            s.pop();
                                        }
                                        r
                                    };
                                    let r0 = exact(&mut *solver, if v0 == usize::MAX { None } else { Some((v0, b0)) });
                                    let r1 = exact(&mut *solver, Some((v, b)));
                                    ctx.check("C09", "sat-equal-hash-different-residual", r0 == r1, || {
                                        format!(
                                            "the state after the single decision x{v}={b} and the state after {} have the same hash {h} but different residual formulas ({} and {} clauses left; {} variables, {} literal occurrences)",
                                            if v0 == usize::MAX { "no decision".to_string() } else { format!("the single decision x{v0}={b0}") },
                                            r1.len(),
                                            r0.len(),
                                            nv,
                                            n_lits_norm
                                        )
                                    })?;
                                }
                            } else {
                                seen.insert(h, (v, b, key));
                            }
                        }
                    }
                    Ok(())
                    };
                    crate::alloc::with_system(|| sweep(ctx, &mut solver))?;
                    ctx.evals += visited;
                    ctx.count("single-decision-states-swept", visited);
                    ctx.ev(43, &[visited, seen.len() as u64]);
                    ctx.check("C09", "sat-pop-restores-hash", solver.cur_hash() == stack[0].hash, || "after the sweep (decide/pop pairs only) the root hash changed".to_string())?;
                }
                K_POP => {
                    ctx.ops += 1;
                    if stack.len() <= 1 {
                        continue; // never below the initial state
                    }
                    solver.pop();
                    stack.pop();
                    n_pop += 1;
                    let top = stack.last().unwrap();
                    let m = read_model(&solver);
                    ctx.ev(42, &[solver.cur_hash() as u64, stack.len() as u64]);
                    ctx.note(|| format!("[{i}] c{} pop -> model={:?}", op.c, m));
                    ctx.check("C09", "sat-pop-restores-model", m == top.model, || {
                        format!("after pop the model is {:?}; before the matching decision it was {:?}", m, top.model)
                    })?;
                    ctx.check("C09", "sat-pop-restores-hash", solver.cur_hash() == top.hash, || {
                        format!("after pop the hash is {}; before the matching decision it was {}", solver.cur_hash(), top.hash)
                    })?;
                    ctx.check("C09", "sat-pop-restores-flag", solver.is_sat() == top.is_sat, || {
                        format!("after pop is_sat() = {}; before the matching decision it was {}", solver.is_sat(), top.is_sat)
                    })?;
                    let decisions = top.decisions.clone();
                    let verified = lits_of(&top.model);
                    check_state(ctx, &solver, &decisions, "after pop", &verified)?;
                }
                _ => {}
            }
        }
        ctx.count("decisions-accepted", n_push);
        ctx.count("decisions-refused", n_unsat);
        ctx.count("pops", n_pop);
        ctx.count("hash-check-exact-product-fits-128-bits", product_fits as u64);
        ctx.count("large-instances(dpll-oracle)", (!small) as u64);
        ctx.nontrivial = n_push >= 1 && !clauses.is_empty();
        ctx.states.extend(seen_hash.keys().map(|h| mix(*h as u64, (*h >> 64) as u64)));
        Ok(())
    }

    fn render_op(&self, op: &Op) -> String {
        match op.k {
            K_CLAUSE | K_CLAUSE_EXT => format!("{} {:?}", if op.k == K_CLAUSE { "clause" } else { "  ...more literals" }, clause_of(op).iter().map(|(v, p)| format!("{}x{}", if *p { "" } else { "!" }, v)).collect::<Vec<_>>()),
            K_DECIDE => format!("c{}: decide(x{} = {})", op.c, op.a[0], op.a[1] & 1 == 1),
            K_SWEEP => "sweep: decide / read hash / pop for every literal at the root".to_string(),
            _ => format!("c{}: pop", op.c),
        }
    }
}

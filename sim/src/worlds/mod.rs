//! The simulated worlds. Each links the real rsdd code.
pub mod bdd;
pub mod lru;
pub mod table;

use crate::core::World;

static TABLE: table::TableWorld = table::TableWorld;
static LRU: lru::LruWorld = lru::LruWorld;
static BDD: bdd::BddWorld = bdd::BddWorld;

pub fn all() -> Vec<&'static dyn World> {
    vec![&TABLE, &LRU, &BDD]
}

pub fn lookup(name: &str) -> Option<&'static dyn World> {
    all().into_iter().find(|w| w.name() == name)
}

//! The simulated worlds. Each links the real rsdd code.
pub mod bdd;
pub mod bddbig;
pub mod bddmid;
pub mod cnf;
pub mod ffi;
pub mod lru;
pub mod prelude;
pub mod query;
pub mod sat;
pub mod sdd;
pub mod sddmid;
pub mod semhash;
pub mod table;

use crate::core::World;

static TABLE: table::TableWorld = table::TableWorld;
static LRU: lru::LruWorld = lru::LruWorld;
static BDD: bdd::BddWorld = bdd::BddWorld;
static SAT: sat::SatWorld = sat::SatWorld;
static CNF: cnf::CnfWorld = cnf::CnfWorld;
static SDD: sdd::SddWorld = sdd::SddWorld;
static QUERY: query::QueryWorld = query::QueryWorld;
static SEMHASH: semhash::SemHashWorld = semhash::SemHashWorld;
static FFI: ffi::FfiWorld = ffi::FfiWorld;
static BDDBIG: bddbig::BddBigWorld = bddbig::BddBigWorld;
static BDDMID: bddmid::BddMidWorld = bddmid::BddMidWorld;
static SDDMID: sddmid::SddMidWorld = sddmid::SddMidWorld;

pub fn all() -> Vec<&'static dyn World> {
    vec![&TABLE, &LRU, &BDD, &SAT, &CNF, &SDD, &QUERY, &SEMHASH, &FFI, &BDDBIG, &BDDMID, &SDDMID]
}

pub fn lookup(name: &str) -> Option<&'static dyn World> {
    all().into_iter().find(|w| w.name() == name)
}

//! `bddbig` scenario (C02 / C01, thorough tier): hooks idle, shipped
//! capacities, 18-22 variables, a history long enough to take the unique
//! table (131072 slots) through natural growths; then re-lookup of every
//! stored node, duplicate-triple scan and shape check of every node.
//! The oracle for functions is a 256-bit vector of sampled assignments
//! (only and/or/xor/ite/negate are issued, which act bitwise on samples).

use crate::core::*;
use crate::rng::{mix, Rng};
use crate::worlds::bdd::{addr, gen_operand, perm_from_index, pkey};
use rsdd::builder::bdd::{BddBuilder, RobddBuilder};
use rsdd::builder::cache::{AllIteTable, IteTable, LruIteTable};
use rsdd::builder::BottomUpBuilder;
use rsdd::repr::{BddNode, BddPtr, DDNNFPtr, VarLabel, VarOrder};
use std::collections::BTreeMap;

pub struct BddBigWorld;

const K_CUBESUM: u8 = 0;
const K_AND: u8 = 1;
const K_OR: u8 = 2;
const K_XOR: u8 = 3;
const K_ITE: u8 = 4;
const K_NEG: u8 = 5;
const KN: [&str; 6] = ["cube-sum", "and", "or", "xor", "ite", "negate"];

type Ptr = BddPtr<'static>;
type S = [u64; 4];

fn s_not(a: S) -> S {
    [!a[0], !a[1], !a[2], !a[3]]
}
fn s_zip(a: S, b: S, f: impl Fn(u64, u64) -> u64) -> S {
    [f(a[0], b[0]), f(a[1], b[1]), f(a[2], b[2]), f(a[3], b[3])]
}

/// evaluate a diagram on one assignment by following one path (independent of rsdd's evaluators)
fn eval_path(mut p: Ptr, asg: u32) -> bool {
    let mut neg = false;
    loop {
        match p {
            BddPtr::PtrTrue => return !neg,
            BddPtr::PtrFalse => return neg,
            BddPtr::Reg(n) => p = if (asg >> n.var.value()) & 1 == 1 { n.high } else { n.low },
            BddPtr::Compl(n) => {
                neg = !neg;
                p = if (asg >> n.var.value()) & 1 == 1 { n.high } else { n.low };
            }
        }
    }
}

fn run<T: IteTable<'static, Ptr> + Default + 'static>(plan: &Plan, ctx: &mut Ctx) -> R {
    let n = plan.get("nvars").clamp(4, 24) as usize;
    let target_nodes = plan.get("target_nodes") as usize;
    // a random order: identity with a seeded shuffle
    let mut perm: Vec<usize> = (0..n).collect();
    Rng::new(plan.get("order_seed") as u64).shuffle(&mut perm);
    let _ = perm_from_index;
    let labels: Vec<VarLabel> = perm.iter().map(|v| VarLabel::new(*v as u64)).collect();
    let b: &'static RobddBuilder<'static, T> = Box::leak(Box::new(RobddBuilder::<T>::new(VarOrder::new(&labels))));
    let mut sr = Rng::new(plan.get("sample_seed") as u64);
    let samples: Vec<u32> = (0..256).map(|_| (sr.next() as u32) & ((1u32 << n) - 1)).collect();
    let sample_of = |f: &dyn Fn(u32) -> bool| -> S {
        let mut s = [0u64; 4];
        for (j, a) in samples.iter().enumerate() {
            if f(*a) {
                s[j / 64] |= 1 << (j % 64);
            }
        }
        s
    };
    let mut pool: Vec<Ptr> = Vec::new();
    let mut model: Vec<S> = Vec::new();
    let mut stored = 0usize;
    for (i, op) in plan.ops.iter().enumerate() {
        ctx.step = i;
        ctx.cur_prop = "C01";
        if i % 8 == 0 {
            stored = b.verif_nodes().len();
            if stored >= target_nodes {
                break;
            }
        }
        ctx.ops += 1;
        let np = pool.len();
        let kind = if np < 2 { K_CUBESUM } else { op.k };
        let g = |j: usize| np - 1 - ((op.a[j].unsigned_abs() as usize >> 1) % np);
        let (p, m) = match kind {
            K_CUBESUM => {
                // OR of a few random cubes
                let mut r = Rng::new(op.a[0] as u64 ^ 0xabcdef);
                let mut acc = b.false_ptr();
                let mut macc = [0u64; 4];
                for _ in 0..(1 + r.below(3)) {
                    let mut cube = b.true_ptr();
                    let mut lits = Vec::new();
                    for _ in 0..(2 + r.below(4)) {
                        let v = r.below(n as u64) as usize;
                        let pol = r.bool();
                        lits.push((v, pol));
                        cube = b.and(cube, b.var(VarLabel::new(v as u64), pol));
                    }
                    acc = b.or(acc, cube);
                    let ms = sample_of(&|a| lits.iter().all(|(v, p)| ((a >> v) & 1 == 1) == *p));
                    macc = s_zip(macc, ms, |x, y| x | y);
                }
                (acc, macc)
            }
            K_AND => (b.and(pool[g(0)], pool[g(1)]), s_zip(model[g(0)], model[g(1)], |x, y| x & y)),
            K_OR => (b.or(pool[g(0)], pool[g(1)]), s_zip(model[g(0)], model[g(1)], |x, y| x | y)),
            K_XOR => (b.xor(pool[g(0)], pool[g(1)]), s_zip(model[g(0)], model[g(1)], |x, y| x ^ y)),
            K_ITE => {
                let (f, t, e) = (model[g(0)], model[g(1)], model[g(2)]);
                (b.ite(pool[g(0)], pool[g(1)], pool[g(2)]), [(f[0] & t[0]) | (!f[0] & e[0]), (f[1] & t[1]) | (!f[1] & e[1]), (f[2] & t[2]) | (!f[2] & e[2]), (f[3] & t[3]) | (!f[3] & e[3])])
            }
            _ => (b.negate(pool[g(0)]), s_not(model[g(0)])),
        };
        let got = sample_of(&|a| eval_path(p, a));
        ctx.ev(400 + kind as u64, &[np as u64, got[0], got[1], got[2], got[3]]);
        ctx.note(|| format!("[{i}] h{np} = {} -> {:?}@{:#x} ({stored} nodes stored)", KN[kind as usize], pkey(p).1, addr(p)));
        ctx.check("C01", "bddbig-result-on-sampled-assignments", got == m, || {
            format!("`{}` disagrees with its definition on some of 256 sampled assignments over {n} variables", KN[kind as usize])
        })?;
        pool.push(p);
        model.push(m);
    }
    // ---- audits over the whole table
    ctx.cur_prop = "C02";
    ctx.step = plan.ops.len();
    let all = b.verif_nodes();
    let order = b.order();
    let mut triples: BTreeMap<(u64, (usize, u8), (usize, u8)), usize> = BTreeMap::new();
    for nd in all.iter() {
        let a = *nd as *const BddNode as usize;
        ctx.check("C02", "bdd-high-edge-regular", !nd.high.is_neg() && !nd.high.is_false(), || format!("node {a:#x} has a complemented or false high edge"))?;
        ctx.check("C02", "bdd-no-redundant-node", nd.low != nd.high, || format!("node {a:#x} has identical children"))?;
        for c in [nd.low, nd.high] {
            if let Some(cv) = c.var_safe() {
                ctx.check("C02", "bdd-order-respected", order.lt(nd.var, cv), || format!("node {a:#x}: var {} not before child var {}", nd.var.value(), cv.value()))?;
            }
        }
        let k = (nd.var.value(), pkey(nd.low), pkey(nd.high));
        if let Some(prev) = triples.insert(k, a) {
            ctx.check("C02", "bdd-table-duplicate-triple", false, || format!("the unique table stores the triple (var {}, {:x?}, {:x?}) twice: {prev:#x} and {a:#x}", k.0, k.1, k.2))?;
        }
    }
    let n_all = all.len();
    for nd in all.iter() {
        let a = *nd as *const BddNode as usize;
        let back = b.get_or_insert(BddNode::new(nd.var, nd.low, nd.high));
        ctx.check("C02", "bdd-node-relookup", matches!(back, BddPtr::Reg(_)) && addr(back) == a, || {
            format!("looking up the triple of stored node {a:#x} again returned {:?}@{:#x}: the unique table lost it ({n_all} nodes stored)", pkey(back).1, addr(back))
        })?;
    }
    let after = b.verif_nodes().len();
    ctx.check("C02", "bdd-relookup-created-nodes", after == n_all, || format!("re-looking up {n_all} stored nodes left {after} nodes in the table"))?;
    ctx.count("nodes-stored", n_all as u64);
    ctx.count("reached-first-growth(>91750)", (n_all > 91_750) as u64);
    ctx.count("reached-second-growth(>183500)", (n_all > 183_500) as u64);
    ctx.ev(499, &[n_all as u64, pool.len() as u64]);
    ctx.nontrivial = n_all > 91_750;
    ctx.states.push(n_all as u64);
    Ok(())
}

impl World for BddBigWorld {
    fn name(&self) -> &'static str {
        "bddbig"
    }
    fn properties(&self) -> &'static [&'static str] {
        &["C01", "C02"]
    }

    fn generate(&self, run_seed: u64, target: &str, _thorough: bool) -> Plan {
        let mut cfg = Cfg::new();
        let mut c = Rng::stream(run_seed, "config");
        let mut o = Rng::stream(run_seed, "ops");
        cfg.insert("arena".into(), 2);
        cfg.insert("nvars".into(), 18 + c.below(5) as i64);
        cfg.insert("order_seed".into(), (c.next() >> 2) as i64);
        cfg.insert("sample_seed".into(), (c.next() >> 2) as i64);
        cfg.insert("cache".into(), c.below(2) as i64);
        cfg.insert("place_off".into(), (c.below(4096) * 16) as i64);
        cfg.insert("target_nodes".into(), *c.pick(&[120_000i64, 200_000, 400_000]));
        let mut ops = Vec::new();
        for _ in 0..24 {
            ops.push(Op { c: 0, k: K_CUBESUM, a: [(o.next() >> 2) as i64, 0, 0, 0] });
        }
        for _ in 0..2500 {
            let k = *o.pick(&[K_CUBESUM, K_AND, K_OR, K_XOR, K_XOR, K_ITE, K_ITE, K_NEG]);
            ops.push(Op { c: 0, k, a: [if k == K_CUBESUM { (o.next() >> 2) as i64 } else { gen_operand(&mut o) }, gen_operand(&mut o), gen_operand(&mut o), 0] });
        }
        Plan {
            world: "bddbig".into(),
            target: target.into(),
            seed: run_seed,
            cfg,
            ops,
            faults: Faults::Random { seed: mix(run_seed, 86), rates: [0; NUM_SITES] },
        }
    }

    fn execute(&self, plan: &Plan, ctx: &mut Ctx) -> R {
        if plan.get("cache") != 0 {
            run::<LruIteTable<Ptr>>(plan, ctx)
        } else {
            run::<AllIteTable<Ptr>>(plan, ctx)
        }
    }

    fn render_op(&self, op: &Op) -> String {
        format!("{} {:?}", KN.get(op.k as usize).unwrap_or(&"?"), op.a)
    }
}

//! Batches of seeded runs on worker threads, minimisation, replay files.

use crate::core::*;
use crate::rng::mix;
use serde::{Deserialize, Serialize};
use std::collections::{BTreeMap, HashSet};
use std::sync::atomic::{AtomicBool, AtomicU64, Ordering};
use std::sync::Mutex;
use std::time::Instant;

pub struct BatchSpec<'a> {
    pub world: &'a dyn World,
    pub target: &'a str,
    pub base_seed: u64,
    pub runs: u64,
    pub thorough: bool,
    pub threads: usize,
    /// optional file in which each worker publishes the seed it is running (hang containment)
    pub inflight: Option<&'a crate::supervise::Inflight>,
    pub needs_fault_effect: bool,
    /// recognises violations listed in known-findings.txt (returns the finding id); such runs do not stop the search
    pub known: &'a (dyn Fn(&str, &Violation) -> Option<String> + Sync),
}

#[derive(Default, Clone)]
pub struct BatchResult {
    pub world: String,
    pub runs: u64,
    pub ops: u64,
    pub evals: u64,
    pub fired: [u64; NUM_SITES],
    pub visits: [u64; NUM_SITES],
    pub probes: Vec<u64>,
    pub counters: BTreeMap<String, u64>,
    pub foreign: u64,
    pub distinct_logs: HashSet<u64>,
    pub distinct_nontrivial: HashSet<u64>,
    pub states: HashSet<u64>,
    pub arena_bytes_max: usize,
    pub wall_s: f64,
    /// (run index, run seed, violation)
    pub violations: Vec<(u64, u64, Violation)>,
    pub harness_errors: Vec<(u64, Violation)>,
    /// known finding id -> (hits, first run index, its seed, its violation)
    pub known_hits: BTreeMap<String, (u64, u64, u64, Violation)>,
    pub samples: Vec<serde_json::Value>,
    /// slowest run (seed, milliseconds) — diagnostics only, never part of a verdict
    pub slowest: (u64, u64),
}

pub fn run_seed_of(base_seed: u64, world: &str, target: &str, i: u64) -> u64 {
    mix(mix(mix(base_seed, crate::rng::str_hash(world)), crate::rng::str_hash(target)), i) >> 1
}

fn has_effect(st: &RunStats) -> bool {
    use rsdd::verif::Probe;
    st.fired.iter().sum::<u64>() > 0
        || [Probe::TableGrow, Probe::LruOverwrite, Probe::LruGrow, Probe::TablePropagateSwap, Probe::TableInsertDisplace]
            .iter()
            .any(|p| st.probes.get(*p as usize).copied().unwrap_or(0) > 0)
}

pub fn run_batch(spec: &BatchSpec) -> BatchResult {
    let next = AtomicU64::new(0);
    let stop_at = AtomicU64::new(u64::MAX);
    let harness_err = AtomicBool::new(false);
    let agg = Mutex::new(BatchResult {
        world: spec.world.name().to_string(),
        ..Default::default()
    });
    let t0 = Instant::now();
    std::thread::scope(|sc| {
        for w in 0..spec.threads.max(1) {
            let next = &next;
            let stop_at = &stop_at;
            let agg = &agg;
            let harness_err = &harness_err;
            std::thread::Builder::new()
                .stack_size(16 << 20)
                .spawn_scoped(sc, move || {
                    warm_up();
                    let mut local = BatchResult::default();
                    loop {
                        let i = next.fetch_add(1, Ordering::Relaxed);
                        if i >= spec.runs || i > stop_at.load(Ordering::Relaxed) || harness_err.load(Ordering::Relaxed) {
                            break;
                        }
                        let seed = run_seed_of(spec.base_seed, spec.world.name(), spec.target, i);
                        if let Some(inf) = spec.inflight {
                            inf.publish(w, spec.world.name(), seed);
                        }
                        let plan = spec.world.generate(seed, spec.target, spec.thorough);
                        let t_run = Instant::now();
                        let out = execute_plan_with(spec.world, &plan, false, &|| {
                            if let Some(inf) = spec.inflight {
                                inf.running_on_this_thread(w);
                            }
                        });
                        let ms = t_run.elapsed().as_millis() as u64;
                        if ms > local.slowest.1 {
                            local.slowest = (seed, ms);
                        }
                        if let Some(inf) = spec.inflight {
                            inf.clear(w);
                        }
                        local.runs += 1;
                        local.ops += out.stats.ops;
                        local.evals += out.stats.evals;
                        local.foreign += out.stats.foreign;
                        for s in 0..NUM_SITES {
                            local.fired[s] += out.stats.fired[s];
                            local.visits[s] += out.stats.visits[s];
                        }
                        if local.probes.len() < out.stats.probes.len() {
                            local.probes.resize(out.stats.probes.len(), 0);
                        }
                        for (k, v) in out.stats.probes.iter().enumerate() {
                            local.probes[k] += v;
                        }
                        for (k, v) in out.stats.counters.iter() {
                            *local.counters.entry(k.to_string()).or_insert(0) += v;
                        }
                        local.distinct_logs.insert(out.log_hash);
                        if out.stats.nontrivial && (!spec.needs_fault_effect || has_effect(&out.stats)) {
                            local.distinct_nontrivial.insert(out.log_hash);
                        }
                        for s in out.stats.states.iter() {
                            if local.states.len() < 2_000_000 {
                                local.states.insert(*s);
                            }
                        }
                        local.arena_bytes_max = local.arena_bytes_max.max(out.stats.arena_bytes);
                        if local.samples.len() < 1 && out.stats.nontrivial && i % 7 == 3 {
                            local.samples.push(sample_of(spec.world, &plan, &out));
                        }
                        if let Some(v) = out.violation {
                            if v.property == "HARNESS" {
                                harness_err.store(true, Ordering::Relaxed);
                                local.harness_errors.push((seed, v));
                            } else if let Some(id) = (spec.known)(spec.world.name(), &v) {
                                let e = local.known_hits.entry(id).or_insert((0, i, seed, v.clone()));
                                e.0 += 1;
                                if i < e.1 {
                                    *e = (e.0, i, seed, v);
                                }
                            } else {
                                stop_at.fetch_min(i, Ordering::Relaxed);
                                local.violations.push((i, seed, v));
                            }
                        }
                    }
                    let mut a = agg.lock().unwrap();
                    a.runs += local.runs;
                    a.ops += local.ops;
                    a.evals += local.evals;
                    a.foreign += local.foreign;
                    for s in 0..NUM_SITES {
                        a.fired[s] += local.fired[s];
                        a.visits[s] += local.visits[s];
                    }
                    if a.probes.len() < local.probes.len() {
                        a.probes.resize(local.probes.len(), 0);
                    }
                    for (k, v) in local.probes.iter().enumerate() {
                        a.probes[k] += v;
                    }
                    for (k, v) in local.counters {
                        *a.counters.entry(k).or_insert(0) += v;
                    }
                    a.distinct_logs.extend(local.distinct_logs);
                    a.distinct_nontrivial.extend(local.distinct_nontrivial);
                    a.states.extend(local.states);
                    a.arena_bytes_max = a.arena_bytes_max.max(local.arena_bytes_max);
                    if local.slowest.1 > a.slowest.1 {
                        a.slowest = local.slowest;
                    }
                    a.violations.extend(local.violations);
                    a.harness_errors.extend(local.harness_errors);
                    for (id, (n, i, seed, v)) in local.known_hits {
                        let e = a.known_hits.entry(id).or_insert((0, i, seed, v.clone()));
                        e.0 += n;
                        if i < e.1 {
                            *e = (e.0, i, seed, v);
                        }
                    }
                    if a.samples.len() < 3 {
                        a.samples.extend(local.samples);
                    }
                })
                .unwrap();
        }
    });
    let mut r = agg.into_inner().unwrap();
    r.wall_s = t0.elapsed().as_secs_f64();
    r.violations.sort_by_key(|(i, _, _)| *i);
    r
}

/// touch lazily-initialised per-thread state before any arena is armed
pub fn warm_up() {
    let _ = std::thread::current().id();
    let m: std::collections::HashMap<u32, u32> = std::collections::HashMap::new();
    drop(m);
    let _ = format!("{}", 1.5f64);
    let _ = std::panic::catch_unwind(|| ());
}

pub fn sample_of(world: &dyn World, plan: &Plan, out: &Outcome) -> serde_json::Value {
    let ops: Vec<String> = plan.ops.iter().take(12).map(|o| world.render_op(o)).collect();
    serde_json::json!({
        "world": plan.world,
        "run_seed": plan.seed,
        "cfg": plan.cfg,
        "n_ops": plan.ops.len(),
        "first_ops": ops,
        "faults_fired": out.fired.len(),
        "log_hash": format!("{:016x}", out.log_hash),
    })
}

// ---------------------------------------------------------------- replay files

#[derive(Serialize, Deserialize, Clone, Debug)]
pub struct ReplayFile {
    pub property: String,
    pub violation: Violation,
    pub run_seed: u64,
    pub expected_log_hash: String,
    pub plan: Plan,
    pub original_ops: usize,
    pub original_faults: usize,
    pub minimise_executions: u64,
    pub pretty: Vec<String>,
}

pub fn same_class(a: &Violation, b: &Violation) -> bool {
    a.property == b.property && a.check == b.check
}

/// Turn random faults into the explicit list that fired, then shrink the plan
/// while the same violation class persists.
pub fn minimise(world: &dyn World, plan: &Plan, viol: &Violation, budget: u64) -> (Plan, Violation, u64, u64) {
    let mut execs = 0u64;
    let mut best = plan.clone();
    let mut best_v = viol.clone();
    let mut best_hash;
    // 1. explicit fault trace
    {
        let out = execute_plan(world, &best, false);
        execs += 1;
        best_hash = out.log_hash;
        let mut scripted = best.clone();
        scripted.faults = Faults::Script(out.fired.clone());
        let o2 = execute_plan(world, &scripted, false);
        execs += 1;
        if let Some(v2) = &o2.violation {
            if same_class(v2, viol) {
                best = scripted;
                best_v = v2.clone();
                best_hash = o2.log_hash;
            }
        }
    }
    let try_plan = |cand: &Plan, execs: &mut u64| -> Option<(Violation, u64)> {
        *execs += 1;
        let o = execute_plan(world, cand, false);
        match o.violation {
            Some(v) if same_class(&v, viol) => Some((v, o.log_hash)),
            _ => None,
        }
    };
    // wall time is only used to give up shrinking (the unshrunk plan is already a valid replay)
    let t_min = Instant::now();
    let mut progress = true;
    while progress && execs < budget && t_min.elapsed().as_secs() < 90 {
        progress = false;
        // 2. drop chunks of operations (ddmin)
        let mut chunk = (best.ops.len() / 2).max(1);
        while chunk >= 1 && execs < budget {
            let mut i = 0;
            while i < best.ops.len() && execs < budget && t_min.elapsed().as_secs() < 90 {
                let mut cand = best.clone();
                let end = (i + chunk).min(cand.ops.len());
                cand.ops.drain(i..end);
                if let Some((v, h)) = try_plan(&cand, &mut execs) {
                    best = cand;
                    best_v = v;
                    best_hash = h;
                    progress = true;
                } else {
                    i += chunk;
                }
            }
            if chunk == 1 {
                break;
            }
            chunk /= 2;
        }
        // 3. drop faults
        if let Faults::Script(fs) = best.faults.clone() {
            let mut fs = fs;
            let mut chunk = (fs.len() / 2).max(1);
            while !fs.is_empty() && execs < budget && t_min.elapsed().as_secs() < 90 {
                let mut i = 0;
                while i < fs.len() && execs < budget && t_min.elapsed().as_secs() < 90 {
                    let mut cand_f = fs.clone();
                    let end = (i + chunk).min(cand_f.len());
                    cand_f.drain(i..end);
                    let mut cand = best.clone();
                    cand.faults = Faults::Script(cand_f.clone());
                    if let Some((v, h)) = try_plan(&cand, &mut execs) {
                        fs = cand_f;
                        best = cand;
                        best_v = v;
                        best_hash = h;
                        progress = true;
                    } else {
                        i += chunk;
                    }
                }
                if chunk == 1 {
                    break;
                }
                chunk /= 2;
            }
        }
        // 4. simpler configuration
        let mut simpler_cfgs = world.simplify_cfg(&best);
        if best.get_or("prelude", 1) != 0 && crate::worlds::prelude::wanted(best.seed) {
            // a run that began with earlier work on its thread: does the violation need it?
            let mut c = best.cfg.clone();
            c.insert("prelude".into(), 0);
            simpler_cfgs.push(c);
        }
        for cfg in simpler_cfgs {
            if execs >= budget || t_min.elapsed().as_secs() >= 120 {
                break;
            }
            let mut cand = best.clone();
            cand.cfg = cfg;
            if let Some((v, h)) = try_plan(&cand, &mut execs) {
                best = cand;
                best_v = v;
                best_hash = h;
                progress = true;
            }
        }
        // 5. simpler operations: one caller, small arguments
        for i in 0..best.ops.len() {
            if execs >= budget || t_min.elapsed().as_secs() >= 90 {
                break;
            }
            let cur = best.ops[i].clone();
            let mut simpler = cur.clone();
            simpler.c = 0;
            for a in simpler.a.iter_mut() {
                if *a > 3 {
                    *a &= 3;
                }
            }
            if simpler != cur {
                let mut cand = best.clone();
                cand.ops[i] = simpler;
                if let Some((v, h)) = try_plan(&cand, &mut execs) {
                    best = cand;
                    best_v = v;
                    best_hash = h;
                    progress = true;
                }
            }
        }
    }
    (best, best_v, best_hash, execs)
}

pub fn write_replay(
    world: &dyn World,
    dir: &str,
    original: &Plan,
    min: &Plan,
    v: &Violation,
    log_hash: u64,
    execs: u64,
) -> String {
    let trace = execute_plan(world, min, true);
    let mut pretty: Vec<String> = min.ops.iter().enumerate().map(|(i, o)| format!("{i}: {}", world.render_op(o))).collect();
    if let Faults::Script(fs) = &min.faults {
        for (s, n) in fs {
            pretty.push(format!("fault: {} at its visit #{}", rsdd::verif::SITE_NAMES[*s as usize], n));
        }
    }
    pretty.push("--- trace ---".into());
    pretty.extend(trace.trace.iter().cloned());
    let rf = ReplayFile {
        property: v.property.clone(),
        violation: v.clone(),
        run_seed: original.seed,
        expected_log_hash: format!("{:016x}", log_hash),
        plan: min.clone(),
        original_ops: original.ops.len(),
        original_faults: match &original.faults {
            Faults::Script(f) => f.len(),
            Faults::Random { .. } => trace.fired.len(),
        },
        minimise_executions: execs,
        pretty,
    };
    let _ = std::fs::create_dir_all(dir);
    let path = format!("{}/{}-{}-{}.json", dir, v.property, min.world, original.seed);
    std::fs::write(&path, serde_json::to_string_pretty(&rf).unwrap()).expect("write replay");
    path
}

//! Which worlds decide which property, and how much of each per tier.

pub struct Batch {
    pub world: &'static str,
    pub quick: u64,
    pub thorough: u64,
    /// count a run as non-trivial only if a fault fired or a knob had an effect
    pub needs_fault_effect: bool,
}

pub struct PropSpec {
    pub id: &'static str,
    pub batches: Vec<Batch>,
    pub rule: &'static str,
    pub states_measure: &'static str,
    pub probe_prefixes: &'static [&'static str],
    pub assumptions: &'static [&'static str],
    pub real: &'static [&'static str],
    pub simulated: &'static [&'static str],
}

const SIM_COMMON: &[&str] = &[
    "memory placement (global allocator seam: per-run arena at a seed-derived fixed address)",
    "logical callers and their interleaving (seeded scheduler)",
    "fault points: cache/memo lookups that report a miss, tables/caches that grow early (rsdd::verif::buggify)",
    "initial capacities of unique tables and lossy caches (knobs)",
    "process environment of a run: a fresh OS thread per run (library thread-local state starts pristine; its destructors run before the arena is emptied), first library use of the process outside any arena",
    "earlier work on the run's thread: one run in four starts with a seeded tour of the other library families at other sizes (prelude)",
    "address re-use after free (allocator seam, deterministic LIFO per size class): only in the ffi world's manager-lifetime runs",
];

pub fn spec(id: &str) -> Option<PropSpec> {
    let b = |world, quick, thorough, nfe| Batch { world, quick, thorough, needs_fault_effect: nfe };
    Some(match id {
        "C01" => PropSpec {
            id: "C01",
            batches: vec![b("bdd", 60_000, 3_000_000, true), b("bddmid", 15_000, 600_000, true), b("bddbig", 0, 200, false)],
            rule: "one case = one seeded run: a generated history of 10-300 builder operations by 1-4 logical callers on one RobddBuilder (random order, cache kind, capacities, fault rates, placement). Distinct = distinct event-log hash (the log contains every result's truth table and raw node address and every fault fired). Non-trivial = at least one non-constant result AND at least one fault fired or table growth / displacement / lossy-cache overwrite happened. bddmid also issues compile_cnf on seeded clause lists (narrow, 20-70-literal and 129-260-literal clauses).",
            states_measure: "distinct truth tables (Boolean functions over <= 7 variables) produced as results",
            probe_prefixes: &["Ite", "BddIte", "BddCond", "BddGet", "Table", "Lru"],
            assumptions: &[
                "bdd world: functions over at most 7 variables (128-bit truth-table oracle); bddmid world: 8-27 variables judged on a sampled sub-cube of 512 points (7 free variables x 4 base assignments), condition/exists/compose only on free variables",
                "compose is judged against its documented definition exists v.((v<=>g) & f)",
                "seeded sampling, not exhaustive",
            ],
            real: &["rsdd RobddBuilder<AllIteTable|LruIteTable>, unique table, ITE caches, VarOrder, BddPtr/BddNode (all real code from /repo)"],
            simulated: SIM_COMMON,
        },
        "C02" => PropSpec {
            id: "C02",
            batches: vec![b("table", 40_000, 2_000_000, false), b("bdd", 50_000, 2_000_000, true), b("bddmid", 10_000, 400_000, true), b("bddbig", 16, 600, false)],
            rule: "bdd world: as C01, plus canonicity map, node-shape checks, sub-diagram canonicity, end-of-run re-lookup of every live node; table world: one case = a history of get_or_insert/grow/get_by_hash/iter calls on the real robin-hood table with simulator-chosen hash values (uniform, clustered at slot 0, at the last slots, all equal, pointer-like), capacities 1..64 and the shipped 131072 (>= 91751 keys). Distinct = distinct event-log hash. Non-trivial: bdd as C01; table = at least 2 distinct keys stored. bddmid also issues compile_cnf on seeded clause lists (narrow, 20-70-literal and 129-260-literal clauses with repeated / complementary literals).",
            states_measure: "distinct truth tables produced (bdd world) / distinct final key counts (table world)",
            probe_prefixes: &["Table", "BddGet", "BddIte", "BddCond", "Ite"],
            assumptions: &[
                "functions over at most 7 variables",
                "sub-diagrams reachable through low()/high() count as BDDs of the builder (they must be canonical too)",
                "probe chains shorter than 255 (the table stores probe lengths in a u8)",
                "seeded sampling, not exhaustive",
            ],
            real: &["rsdd BackedRobinhoodTable (directly and inside RobddBuilder), RobddBuilder, BddNode equality/hash"],
            simulated: SIM_COMMON,
        },
        "C16" => PropSpec {
            id: "C16",
            batches: vec![b("lru", 60_000, 3_000_000, false), b("bdd", 30_000, 1_500_000, true), b("bddmid", 8_000, 300_000, true), b("sdd", 30_000, 1_500_000, true), b("sddmid", 8_000, 300_000, true), b("semhash", 8_000, 400_000, true)],
            rule: "lru world: one case = an insert/get history on the real util::lru::Lru with adversarial colliding hashes, capacities 2^0..2^5 and forced growth; bdd world: the same history is executed on the builder under test (lossy cache, tiny capacities, forgetting/growth faults) and on a fault-free twin that caches every application; every result must have the same canonical structural signature; sdd world: same with apply-/ite-cache forgetting against a fault-free twin (compressed and uncompressed); semhash world: the hash-identified SDD builder with its product-hash apply cache forgetting against a fault-free twin (same function). Distinct = distinct event-log hash. Non-trivial: lru = at least one hit and two keys; bdd = non-constant result and a fault/knob effect. In the shipped-size lru scenario every hot key has shadow keys with the same hash (same slot at every capacity).",
            states_measure: "distinct truth tables produced (bdd) / distinct hit counts (lru)",
            probe_prefixes: &["Lru", "BddIteCacheHit", "Ite"],
            assumptions: &[
                "a lossy cache may always answer None; only wrong values are violations",
                "functions over at most 7 variables in the twin comparison",
                "seeded sampling, not exhaustive",
            ],
            real: &["rsdd util::lru::Lru, LruIteTable, AllIteTable, RobddBuilder"],
            simulated: SIM_COMMON,
        },
        "C09" => PropSpec {
            id: "C09",
            batches: vec![b("sat", 150_000, 4_000_000, false)],
            rule: "one case = one seeded run: a random CNF (usually <= 6 variables and <= 8 clauses of <= 4 literals, one run in four up to 10 variables, 14 clauses and 8 literals per clause; incl. empty, unit, duplicate and tautological clauses) and a history of up to 50 (thorough: 120) decide/pop calls by 1-3 logical callers on one real SATSolver, including refused (UNSAT) decisions followed by more work. Distinct = distinct event-log hash. Non-trivial = at least one accepted decision on a non-empty CNF. One long-clause run in four draws a clause of 33-90 literals.",
            states_measure: "distinct solver hash values (= residual formulas) visited",
            probe_prefixes: &["Up", "SatHash"],
            assumptions: &[
                "CNFs over at most 10 variables (brute-force model oracle over <= 1024 assignments)",
                "the hash clause is only asserted when the product of all literal primes fits in 128 bits (the implementation's arithmetic wraps beyond that)",
                "no fault kinds exist for this component (no cache, no allocator dependence): the explored space is the schedule of decide/pop calls",
                "seeded sampling, not exhaustive",
            ],
            real: &["rsdd SATSolver, UnitPropagate, PartialModel, Cnf::new"],
            simulated: &["logical callers and their interleaving (seeded scheduler)", "memory placement (allocator seam; irrelevant to this component but kept for replay)", "process environment of a run: a fresh OS thread per run (library thread-local state starts pristine), first library use of the process outside any arena"],
        },
        "C15" => PropSpec {
            id: "C15",
            batches: vec![b("cnf", 150_000, 6_000_000, false)],
            rule: "one case = one seeded run: a random clause list (usually 0-8 clauses of 0-4 literals over <= 6 variables, one run in four up to 14 clauses of up to 8 literals over 10 variables; incl. the empty formula, empty/unit/duplicate/complementary literals) and a history of up to 54 (thorough: 124) calls by 1-3 logical callers: push/decide/pop/hash on a CnfHasher with the caller's partial model kept in step (hash also with extra assignments the hasher was not told about), set/unset on a PartialModel, insert/remove/union on VarSets, chained Cnf::condition; plus, per run, Cnf::new/eval/wmc on all assignments. One run in six: a large formula (11-60 variables, up to 90 clauses, one in eight with a 27-45-literal clause); one run in 1500: the sweep scenario (300-9000 literal occurrences, every variable once; every single-occurrence residual is hashed, pairwise different hashes and route-independent hashes demanded). Distinct = distinct event-log hash. Non-trivial = non-empty formula and at least two hash calls.",
            states_measure: "distinct HashedCNF values produced",
            probe_prefixes: &["__none"],
            assumptions: &[
                "explicit assignment sets up to 10 variables; larger formulas (11-60 variables; sweep scenario: 300-9000 variables, every variable once) are judged on sampled assignments (eval/condition) and on residual formulas computed by the harness (hasher), never by enumeration",
                "residual formulas are compared with clause identity (which clauses are unsatisfied, and their unassigned literals), which is what the hasher's per-occurrence primes encode",
                "the 'only then' direction is asserted only while the prime product fits in 128 bits (for the whole formula, or for the residual at hand: a bound from the largest primes it could carry)",
                "Cnf::new/eval/is_sat_partial/condition/wmc are input-only clauses: for them this is plain seeded generation, the simulator adds nothing",
                "no fault kinds exist for this component; the explored space is the call schedule",
            ],
            real: &["rsdd Cnf, CnfHasher, PartialModel, VarSet, AssignmentIter, WmcParams, RealSemiring, FiniteField"],
            simulated: &["logical callers and their interleaving (seeded scheduler)", "memory placement (allocator seam; irrelevant to this component but kept for replay)", "process environment of a run: a fresh OS thread per run (library thread-local state starts pristine), first library use of the process outside any arena"],
        },
        "C03" => PropSpec {
            id: "C03",
            batches: vec![b("sdd", 60_000, 3_000_000, true), b("sddmid", 12_000, 500_000, true)],
            rule: "one case = one seeded run: a generated history of 8-160 operations by 1-4 logical callers on one CompressionSddBuilder (vtree: right-linear, left-linear, balanced, random shape, random leaf labelling, 1-7 variables; compression on or off; tiny-to-shipped table capacities; apply-/ite-cache forgetting and early table growth; placement). Distinct = distinct event-log hash. Non-trivial = at least one result that is a decision node AND a fault fired or a table grew/displaced. One sdd run in 500 is a counter-period history (a quiet phase of 2^8 / 2^16 conditionings between two conditionings of the same nodes); sddmid builds multiplexers (wide raw element lists with coinciding / complementary subs).",
            states_measure: "distinct truth tables produced as results",
            probe_prefixes: &["Sdd", "Table", "IteIntro", "IteReorder", "IteStd"],
            assumptions: &["sdd world: functions over at most 7 variables (truth-table oracle); sddmid world: 8-20 variables judged on a sampled sub-cube of 512 points, condition/exists/compose only on its 7 free variables", "compose judged against its documented definition", "seeded sampling, not exhaustive"],
            real: &["rsdd CompressionSddBuilder (SddBuilder/BottomUpBuilder impls), VTreeManager, unique tables, apply and ite caches, SddPtr/SddOr/BinarySDD"],
            simulated: SIM_COMMON,
        },
        "C04" => PropSpec {
            id: "C04",
            batches: vec![b("sdd", 60_000, 3_000_000, true), b("sddmid", 12_000, 500_000, true)],
            rule: "as C03 with compression always on; in addition every decision node reachable from every result is audited from the truth tables of its elements (primes non-false / disjoint / exhaustive / left variables only, subs right variables only and pairwise different, not trimmable, binary-node label = left leaf), a run-global function->pointer map covers all handles and all reachable sub-diagrams (literals and constants pre-seeded), and at end of run every live node is looked up again through get_or_insert_bdd/get_or_insert_sdd.",
            states_measure: "distinct truth tables produced as results",
            probe_prefixes: &["Sdd", "Table"],
            assumptions: &["sdd world: functions over at most 7 variables; sddmid world (8-20 variables): only the parts of the statement that are structural or sound from 512 sampled points (no false prime, primes never overlap / always cover on samples, side-of-vtree dependence on the sub-cube, distinct sub pointers, not trimmable, re-lookup, re-issue)", "sub-diagrams (primes, subs) count as SDDs of the builder", "seeded sampling, not exhaustive"],
            real: &["rsdd CompressionSddBuilder with compression, VTreeManager, unique tables"],
            simulated: SIM_COMMON,
        },
        "C10" => PropSpec {
            id: "C10",
            batches: vec![b("query", 40_000, 1_200_000, false)],
            rule: "one case = one seeded run: a builder (BDD, compressed SDD, or top-down decision-DNNF over up to 3 CNFs) is populated by a short history so that handles share nodes (incl. sub-diagrams and complements), then 1-4 logical callers interleave up to 44 (thorough: 74) queries of different result types (wmc in Real / 3 finite fields / Rational / Complex / ExpectedUtility / Polynomial, evaluate, count_nodes, semantic_hash, cached_semantic_hash, bdd_fold, marginal_map, meu, bb, smooth, condition, condition_model), some repeated immediately; each answer is compared with the same query on a freshly built copy in a brand-new builder and all scratch slots of all nodes are inspected after every call. Distinct = distinct event-log hash. Non-trivial = at least 2 queries of at least 2 kinds on a non-constant diagram. One small BDD run in 60 is a counter-period history repeating one query kind (conditioning or any read-only query); one hashing/counting query in four is asked under a weight table derived from the run's table by editing one variable, and every other 65-244-variable run consists of such queries.",
            states_measure: "distinct sets of query kinds exercised in one run (per builder variant)",
            probe_prefixes: &["ScratchClear", "BddCond", "DnnfCond"],
            assumptions: &[
                "the oracle is 'same answer as on a freshly built copy', it does not judge whether that answer is correct (C07/C08/C12 are not claimed)",
                "cached_semantic_hash is called with one fixed (prime, weight map) per builder, as the property states",
                "weights are small dyadic / integer values so that all arithmetic is exact",
                "seeded sampling, not exhaustive",
            ],
            real: &["rsdd RobddBuilder, CompressionSddBuilder, StandardDecisionNNFBuilder, all query code in repr/bdd.rs, repr/sdd.rs, repr/ddnnf.rs, all shipped semirings"],
            simulated: SIM_COMMON,
        },
        "C11" => PropSpec {
            id: "C11",
            batches: vec![b("semhash", 30_000, 1_200_000, true), b("table", 20_000, 1_000_000, false)],
            rule: "one case = one seeded run: one history (var/negate/and/or/condition/exists/compile_cnf, up to 51 (thorough: 96) operations, 1-6 variables) executed in lock-step on two BDD builders (two orders), a compressed and an uncompressed SDD builder (two vtrees) and a SemanticSddBuilder<64-bit prime> (third vtree); compile_cnf_topdown/negate/condition on a StandardDecisionNNFBuilder and a SemanticDecisionNNFBuilder<64-bit prime> (two decision orders); cached hashes are requested at random points of the history; table capacities tiny-to-shipped; cache-forgetting and early-growth faults; at end of run no two stored nodes of a hash-identified builder may denote the same or complementary function. table world (identity-by-hash mode only): get_or_insert_by_hash(.., true)/get_by_hash histories with simulator-chosen hashes against a map model. Distinct = distinct event-log hash. Non-trivial = at least 3 results AND a fault fired or a table grew/displaced.",
            states_measure: "distinct Boolean functions realised (each in 5-7 representations)",
            probe_prefixes: &["Sem", "DnnfCond", "TopDown", "Table"],
            assumptions: &[
                "at most 6 variables (64 models per defining sum)",
                "only 'equal function => equal hash / eq' is asserted, never the converse: hash collisions cannot raise an alarm",
                "a wrong answer of a hash-identified builder caused by a true 64-bit collision has probability about 2^-50 per run; it would reproduce deterministically and be triaged as such",
                "ite/iff/xor/compose of SemanticSddBuilder are todo!() in the library and not part of the statement",
                "seeded sampling, not exhaustive",
            ],
            real: &["rsdd semantic_hash / cached_semantic_hash (BDD, SDD), create_semantic_hash_map, SemanticSddBuilder, SemanticDecisionNNFBuilder, StandardDecisionNNFBuilder, CompressionSddBuilder, RobddBuilder, FiniteField"],
            simulated: SIM_COMMON,
        },
        "C18" => PropSpec {
            id: "C18",
            batches: vec![b("ffi", 60_000, 3_000_000, false)],
            rule: "one case = one seeded run: a manager is created through the C interface (default order, linear order, or custom permutation via var_order_new) and 5-65 (thorough: 125) further extern \"C\" calls are issued (var/new_var/new_label/true/false/negate/and/or/ite/compose/compile_cnf via cnf_new+literal_new, eq, is_true/false/const, topvar/low/high, count_nodes, model_count, wmc real/complex/polynomial with weight tables built through the C setters and read back through the getters, to_json, print_bdd, scratch set/get/clear); a native RobddBuilder<AllIteTable> twin receives the corresponding Rust calls. Distinct = distinct event-log hash. Non-trivial = at least 3 calls and a non-constant diagram. One small-manager run in 300 is a marathon (1100-2000 blocks on one manager, a fresh root counted per block, old roots counted again); one in 60 is a manager-lifetime run (free_bdd_manager, a new manager on re-used addresses, the same call kinds with other arguments, weight tables untouched).",
            states_measure: "distinct Boolean functions built through the C interface",
            probe_prefixes: &["BddIte", "Table"],
            assumptions: &[
                "functions over at most 7 variables",
                "bdd_low/bdd_high are only called on decision nodes (they are undefined on constants)",
                "robdd_model_count is compared with the native sequence it wraps (smooth + finite-field count), not with the true model count (C08 is not claimed)",
                "result boxes are never freed by the API; leak checking is off",
                "seeded sampling, not exhaustive",
            ],
            real: &["rsdd extern \"C\" symbols of src/ffi/{bdd,wmc,cnf,var}.rs linked from the rlib, RobddBuilder<AllIteTable>, WmcParams, BDDSerializer"],
            simulated: SIM_COMMON,
        },
        _ => return None,
    })
}

pub fn claimed() -> Vec<&'static str> {
    vec!["C01", "C02", "C16"]
}
